From V Require Import Base.Bytes Model.Escape Proofs.EscapeP Model.Tok Proofs.TokP Proofs.RoundTrip.
Definition wsonly (p : bytes) : bool := forallb is_hws p.
Fixpoint hdropws (s : bytes) : bytes := match s with c :: r => if is_hws c then hdropws r else s | [] => [] end.
Definition htrim (s : bytes) : bytes := rev (hdropws (rev (hdropws s))).

Lemma dropws_ws p s : wsonly p = true -> hdropws (p ++ s) = hdropws s.
Proof. induction p as [|c p IH]; cbn; [reflexivity|]. intro H. apply andb_true_iff in H. destruct H as [Hc Hp]. now rewrite Hc, IH. Qed.
Lemma dropws_all p : wsonly p = true -> hdropws p = [].
Proof. intro H. rewrite <- (app_nil_r p). now rewrite dropws_ws. Qed.
Lemma dropws_app_ne s p : hdropws s <> [] -> hdropws (s ++ p) = hdropws s ++ p.
Proof. induction s as [|c s IH]; cbn; [congruence|]. destruct (is_hws c); [exact IH|reflexivity]. Qed.
Lemma wsonly_rev p : wsonly (rev p) = wsonly p.
Proof.
  unfold wsonly. induction p as [|c p IH]; [reflexivity|]. cbn [rev]. rewrite forallb_app, IH. cbn [forallb].
  rewrite andb_true_r. apply andb_comm.
Qed.
Lemma dropws_wsonly_nil s : hdropws s = [] -> wsonly s = true.
Proof. induction s as [|c s IH]; cbn; [reflexivity|]. destruct (is_hws c); [exact IH|discriminate]. Qed.

Lemma htrim_pad_l p s : wsonly p = true -> htrim (p ++ s) = htrim s.
Proof. intro H. unfold htrim. now rewrite dropws_ws. Qed.
Lemma htrim_pad_r s p : wsonly p = true -> htrim (s ++ p) = htrim s.
Proof.
  intro H. unfold htrim. destruct (hdropws s) eqn:E.
  - assert (Hs : wsonly s = true) by now apply dropws_wsonly_nil.
    rewrite (dropws_all (s ++ p)); [reflexivity|]. unfold wsonly in *. now rewrite forallb_app, Hs, H.
  - rewrite dropws_app_ne by congruence. rewrite E, rev_app_distr, dropws_ws by now rewrite wsonly_rev. reflexivity.
Qed.
Lemma htrim_ws p : wsonly p = true -> htrim p = [].
Proof. intro H. unfold htrim. rewrite (dropws_all p H). reflexivity. Qed.

(* canonical form of a token stream *)
Definition norm1 (t : token) : list token :=
  match t with TText raw => match htrim raw with [] => [] | r => [TText r] end | _ => [t] end.
Definition norm (l : list token) : list token := flat_map norm1 l.
Lemma norm_app a b : norm (a ++ b) = norm a ++ norm b. Proof. apply flat_map_app. Qed.
Lemma norm_E_pad_r txt p : wsonly p = true -> norm (emit_text (txt ++ p)) = norm (emit_text txt).
Proof.
  intro H. destruct txt as [|c t].
  - cbn [app]. destruct p; [reflexivity|]. cbn [emit_text norm flat_map norm1]. now rewrite htrim_ws.
  - cbn [app emit_text norm flat_map norm1]. change (c :: t ++ p) with ((c :: t) ++ p). now rewrite htrim_pad_r.
Qed.
Lemma norm_E_ws p : wsonly p = true -> norm (emit_text p) = [].
Proof. intro H. rewrite <- (app_nil_l p). now rewrite norm_E_pad_r. Qed.

Lemma ws_no_lt p : wsonly p = true -> ~ In x3c p.
Proof.
  unfold wsonly. rewrite forallb_forall. intros H Hin. specialize (H _ Hin). discriminate.
Qed.
Lemma run_pad txt p : wsonly p = true -> run (Data txt) p = (Data (txt ++ p), []).
Proof. intro H. apply data_inert. now apply ws_no_lt. Qed.

(* padded serialisations *)
Definition open_tag (t : bytes) (a : attrs) : bytes := [x3c] ++ t ++ ser_attrs a ++ [x3e].
Definition close_tag (t : bytes) : bytes := [x3c; x2f] ++ t ++ [x3e].
Inductive PS : node -> bytes -> Prop :=
| PS_text s p1 p2 : wsonly p1 = true -> wsonly p2 = true -> PS (Text s) (p1 ++ escape s ++ p2)
| PS_elem t a k body p1 p2 p3 : wsonly p1 = true -> wsonly p2 = true -> wsonly p3 = true -> PSF k body ->
    PS (Elem t a k) (p1 ++ open_tag t a ++ p2 ++ body ++ close_tag t ++ p3)
with PSF : list node -> bytes -> Prop :=
| PSF_nil p : wsonly p = true -> PSF [] p
| PSF_cons n r o1 o2 : PS n o1 -> PSF r o2 -> PSF (n :: r) (o1 ++ o2).
Scheme PS_ind2 := Induction for PS Sort Prop with PSF_ind2 := Induction for PSF Sort Prop.
Combined Scheme PS_mut from PS_ind2, PSF_ind2.

Definition goodn (n : node) (o : bytes) : Prop := wf n = true -> nf n = true ->
  forall txt, (is_text n = true -> wsonly txt = true) ->
  exists txt' toks, run (Data txt) o = (Data txt', toks) /\
    norm (toks ++ emit_text txt') = norm (emit_text txt ++ flat n) /\
    (is_text n = false -> wsonly txt' = true).
Definition goodf (k : list node) (o : bytes) : Prop := forallb wf k = true -> nf_list nf k = true ->
  forall txt, (starts_text k = true -> wsonly txt = true) ->
  exists txt' toks, run (Data txt) o = (Data txt', toks) /\
    norm (toks ++ emit_text txt') = norm (emit_text txt ++ flat_map flat k).

Theorem padded_tokens : (forall n o, PS n o -> goodn n o) /\ (forall k o, PSF k o -> goodf k o).
Proof.
  apply PS_mut.
  - (* text *)
    intros s p1 p2 H1 H2 Hw Hn txt Htx. specialize (Htx eq_refl).
    assert (Hno : ~ In x3c (p1 ++ escape s ++ p2)).
    { rewrite !in_app_iff. intros [H|[H|H]].
      - exact (ws_no_lt p1 H1 H).
      - exact (escape_no x3c (or_introl eq_refl) s H).
      - exact (ws_no_lt p2 H2 H). }
    rewrite (data_inert txt _ Hno). eexists _, []. split; [reflexivity|]. split; [|discriminate].
    cbn [app flat]. rewrite norm_app, (norm_E_ws txt Htx). cbn [app].
    cbn [nf] in Hn. destruct s as [|c s]; [discriminate|].
    assert (Hne : escape (c :: s) <> []) by (apply escape_nonempty; discriminate).
    destruct (escape (c :: s)) as [|e es] eqn:Ee; [congruence|].
    rewrite (app_assoc txt), (app_assoc (txt ++ p1)).
    destruct ((txt ++ p1) ++ (e :: es)) as [|y ys] eqn:Ey; [destruct (txt ++ p1); discriminate|].
    cbn [app emit_text norm flat_map norm1]. change (y :: ys ++ p2) with ((y :: ys) ++ p2).
    rewrite htrim_pad_r, <- Ey by assumption. rewrite htrim_pad_l; [reflexivity|].
    unfold wsonly in *. now rewrite forallb_app, Htx, H1.
  - (* element *)
    intros t a k body p1 p2 p3 H1 H2 H3 Hb IHb Hw Hn txt _.
    cbn [wf] in Hw. apply andb_true_iff in Hw. destruct Hw as [Hw Hk].
    apply andb_true_iff in Hw. destruct Hw as [Ht Ha]. cbn [nf] in Hn.
    rewrite run_app, (run_pad txt p1 H1). cbv beta iota.
    unfold open_tag. rewrite run_app, (open_run' (txt ++ p1) t a Ht Ha). cbv beta iota.
    rewrite run_app, (run_pad [] p2 H2). cbv beta iota. cbn [app].
    destruct (IHb Hk Hn p2 (fun _ => H2)) as (tb & ob & Hrb & Heb).
    rewrite run_app, Hrb. cbv beta iota.
    unfold close_tag. rewrite run_app, (end_run' tb t Ht). cbv beta iota.
    rewrite (run_pad [] p3 H3). cbn [app].
    eexists p3, _. split; [reflexivity|]. split; [|intros _; exact H3].
    rewrite !app_nil_r, <- !app_assoc, !norm_app, (norm_E_pad_r txt p1 H1), (norm_E_ws p3 H3), app_nil_r.
    cbn [flat]. f_equal. cbn [app norm flat_map norm1]. f_equal.
    rewrite norm_app in Heb. rewrite (norm_app (emit_text p2)), (norm_E_ws p2 H2) in Heb. cbn [app] in Heb.
    rewrite (app_assoc (norm ob)), Heb. rewrite !norm_app. reflexivity.
  - (* empty forest *)
    intros p Hp _ _ txt _. rewrite (run_pad txt p Hp). eexists _, []. split; [reflexivity|].
    cbn [app flat_map]. now rewrite app_nil_r, norm_E_pad_r.
  - (* cons *)
    intros n r o1 o2 Hn IHn Hr IHr Hw Hnf txt Htx.
    cbn [forallb] in Hw. apply andb_true_iff in Hw. destruct Hw as [Hwn Hwr].
    cbn [nf_list] in Hnf. apply andb_true_iff in Hnf. destruct Hnf as [Hnf Hnfr].
    apply andb_true_iff in Hnf. destruct Hnf as [Hnfn Hadj]. apply negb_true_iff in Hadj.
    destruct (IHn Hwn Hnfn txt Htx) as (t1 & ob1 & Hr1 & He1 & Hz1).
    assert (Hnext : starts_text r = true -> wsonly t1 = true).
    { intro Hs. apply Hz1. destruct (is_text n); [rewrite Hs in Hadj; discriminate|reflexivity]. }
    destruct (IHr Hwr Hnfr t1 Hnext) as (t2 & ob2 & Hr2 & He2).
    rewrite run_app, Hr1, Hr2. eexists t2, _. split; [reflexivity|].
    cbn [flat_map]. rewrite <- app_assoc, (norm_app ob1), He2, <- norm_app, app_assoc, norm_app, He1.
    rewrite <- !norm_app, <- app_assoc. reflexivity.
Qed.

Corollary padded_forest k o : PSF k o -> forallb wf k = true -> nf_list nf k = true ->
  norm (tokens o) = norm (flat_map flat k).
Proof.
  intros H Hw Hn. destruct (proj2 padded_tokens k o H Hw Hn [] (fun _ => eq_refl)) as (t & ob & Hr & He).
  unfold tokens. rewrite Hr. exact He.
Qed.

