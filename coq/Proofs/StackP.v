From V Require Import Base.Bytes Base.Obs Base.Val Model.Stack.

(* ---- assoc / put ---- *)
Lemma assocb_put_same {A} (m : list (bytes * A)) k v : assocb k (put m k v) = Some v.
Proof.
  induction m as [|[k' v'] r IH]; cbn; [now rewrite bytes_eqb_refl|].
  destruct (bytes_eqb k' k) eqn:E; cbn; [now rewrite bytes_eqb_refl|now rewrite E].
Qed.
Lemma assocb_put_other {A} (m : list (bytes * A)) k v x : x <> k -> assocb x (put m k v) = assocb x m.
Proof.
  intro H. induction m as [|[k' v'] r IH]; cbn.
  - destruct (bytes_eqb_spec k x); congruence.
  - destruct (bytes_eqb_spec k' k); cbn.
    + subst k'. destruct (bytes_eqb_spec k x); congruence.
    + destruct (bytes_eqb k' x); auto.
Qed.

(* ---- 1. innermost binding first, root data last ---- *)
Lemma lookup_innermost s m k :
  lookup (push s m) k = match assocb k m with Some v => Some v | None => lookup s k end.
Proof. unfold lookup, push. cbn. destruct (assocb k m); reflexivity. Qed.
Lemma lookup_root_fallback s k : look (scopes s) k = None -> lookup s k = resolve_value (root s) k.
Proof. unfold lookup. intros ->. reflexivity. Qed.

(* ---- 2. Set touches only the innermost scope ---- *)
Lemma set_then_lookup s k v : lookup (set s k v) k = Some v.
Proof.
  unfold lookup, set. destruct (scopes s) as [|m r]; cbn.
  - now rewrite bytes_eqb_refl.
  - now rewrite assocb_put_same.
Qed.
Lemma set_other s k v x : x <> k -> lookup (set s k v) x = lookup s x.
Proof.
  intro H. unfold lookup, set. destruct (scopes s) as [|m r]; cbn.
  - destruct (bytes_eqb_spec k x); congruence.
  - now rewrite assocb_put_other.
Qed.
Lemma set_lower_untouched s k v m r : scopes s = m :: r -> scopes (set s k v) = put m k v :: r.
Proof. unfold set. intros ->. reflexivity. Qed.

(* ---- 3. pop restores ---- *)
Inductive mop := MPush (m : scope) | MPop | MSet (k : bytes) (v : val).
Definition mstep (s : stack) (o : mop) : stack :=
  match o with MPush m => push s m | MPop => pop s | MSet k v => set s k v end.
(* the sequence keeps at least d >= 1 scopes of its own on top at every point *)
Fixpoint above (d : nat) (ops : list mop) : option nat :=
  match ops with
  | [] => Some d
  | MPush _ :: r => above (S d) r
  | MPop :: r => match d with S (S d') => above (S d') r | _ => None end
  | MSet _ _ :: r => match d with O => None | _ => above d r end
  end.
Lemma run_above ops : forall d d' s top base,
  above d ops = Some d' -> scopes s = top ++ base -> length top = d -> base <> [] ->
  exists top', scopes (fold_left mstep ops s) = top' ++ base /\ length top' = d' /\ root (fold_left mstep ops s) = root s.
Proof.
  induction ops as [|o r IH]; intros d d' s top base Ha Hs Hl Hb; cbn in *.
  - injection Ha as <-. exists top. auto.
  - destruct o as [m| |k v].
    + destruct (IH (S d) d' (push s m) (m :: top) base Ha) as (t' & H1 & H2 & H3); cbn; try congruence; eauto.
    + destruct d as [|[|d0]]; try discriminate.
      destruct top as [|m0 [|m1 top]]; try discriminate. cbn in Hl.
      assert (Hp : scopes (pop s) = (m1 :: top) ++ base /\ root (pop s) = root s).
      { unfold pop. rewrite Hs. cbn. destruct (top ++ base); auto. }
      destruct Hp as [Hp Hr].
      destruct (IH (S d0) d' (pop s) (m1 :: top) base Ha Hp) as (t' & H1 & H2 & H3); cbn; try lia; auto.
      exists t'. rewrite H3. auto.
    + destruct d as [|d0]; try discriminate. destruct top as [|m0 top]; try discriminate.
      assert (Hp : scopes (set s k v) = (put m0 k v :: top) ++ base /\ root (set s k v) = root s).
      { unfold set. rewrite Hs. cbn. auto. }
      destruct Hp as [Hp Hr].
      destruct (IH (S d0) d' (set s k v) (put m0 k v :: top) base Ha Hp) as (t' & H1 & H2 & H3); cbn; auto.
      exists t'. rewrite H3. auto.
Qed.
Lemma pop_restores s m ops : scopes s <> [] -> above 1 ops = Some 1 ->
  pop (fold_left mstep ops (push s m)) = s.
Proof.
  intros Hne Ha.
  destruct (run_above ops 1 1 (push s m) [m] (scopes s) Ha eq_refl eq_refl Hne) as (t' & H1 & H2 & H3).
  destruct t' as [|x [|y t']]; try discriminate. cbn in H1.
  unfold pop. rewrite H1. destruct s as [sc rt]. cbn in *. destruct sc as [|b0 bs0]; [congruence|].
  rewrite H3. reflexivity.
Qed.

(* ---- 4. the merged environment agrees with lookup ---- *)
Lemma assocb_app {A} (a b : list (bytes * A)) k :
  assocb k (a ++ b) = match assocb k a with Some v => Some v | None => assocb k b end.
Proof. induction a as [|[x y] r IH]; cbn; [reflexivity|]. destruct (bytes_eqb x k); auto. Qed.
Lemma assocb_overlay top : forall base k,
  assocb k (overlay base top) = match assocb k (rev top) with Some v => Some v | None => assocb k base end.
Proof.
  unfold overlay. induction top as [|[k' v'] r IH]; intros base k; cbn; [reflexivity|].
  rewrite IH, assocb_app. cbn. destruct (assocb k (rev r)); [reflexivity|].
  destruct (bytes_eqb_spec k' k).
  - subst. apply assocb_put_same.
  - apply assocb_put_other. congruence.
Qed.
Definition uniq (m : scope) : Prop := NoDup (map fst m).
Lemma assocb_none_notin {A} (m : list (bytes * A)) k : assocb k m = None <-> ~ In k (map fst m).
Proof.
  induction m as [|[a b] r IH]; cbn; [tauto|]. destruct (bytes_eqb_spec a k).
  - subst. split; [discriminate|]. intro H. exfalso. apply H. auto.
  - rewrite IH. tauto.
Qed.
Lemma assocb_rev_uniq m k : uniq m -> assocb k (rev m) = assocb k m.
Proof.
  unfold uniq. induction m as [|[a b] r IH]; cbn; [reflexivity|]. intro H. inversion H as [|? ? Hn Hr]; subst.
  rewrite assocb_app, IH by assumption. cbn. destruct (bytes_eqb_spec a k).
  - subst. apply assocb_none_notin in Hn. now rewrite Hn.
  - destruct (assocb k r); reflexivity.
Qed.
Lemma assocb_merged ss k : Forall uniq ss -> assocb k (merged ss) = look ss k.
Proof.
  unfold merged. induction 1 as [|m r Hm _ IH]; cbn; [reflexivity|].
  rewrite assocb_overlay, assocb_rev_uniq, IH by assumption. reflexivity.
Qed.
Lemma assocb_fill_unbound r : forall m k,
  assocb k (fill_unbound m r) = match assocb k m with Some v => Some v | None => assocb k r end.
Proof.
  unfold fill_unbound. induction r as [|[a b] r IH]; intros m k; cbn.
  - destruct (assocb k m); reflexivity.
  - rewrite IH. clear IH. destruct (assocb a m) eqn:Ea.
    + destruct (assocb k m) eqn:Ek; [reflexivity|]. destruct (bytes_eqb_spec a k); [|reflexivity].
      subst. congruence.
    + destruct (bytes_eqb_spec a k).
      * subst. rewrite assocb_put_same, Ea. reflexivity.
      * rewrite assocb_put_other by congruence. reflexivity.
Qed.
(* scopes shadow the root data's fields; among scopes the innermost wins *)
Lemma envmap_spec s k : Forall uniq (scopes s) ->
  assocb k (envmap s) = match look (scopes s) k with Some v => Some v | None => assocb k (root_fields (root s)) end.
Proof. intro H. unfold envmap. now rewrite assocb_fill_unbound, assocb_merged. Qed.
Lemma envmap_agrees_scopes s k v : Forall uniq (scopes s) -> look (scopes s) k = Some v ->
  assocb k (envmap s) = lookup s k.
Proof. intros H Hl. rewrite envmap_spec by assumption. unfold lookup. now rewrite Hl. Qed.

(* root struct fields: the environment and Lookup address the same field under the same names *)
Definition addrb (k : bytes) (f : bytes * bytes * bool * val) : bool :=
  f_exported f && (bytes_eqb (env_key f) k || bytes_eqb (f_name f) k).
Definition wf_struct (fs : list (bytes * bytes * bool * val)) : Prop :=
  NoDup (map f_name fs) /\ (forall f g, In f fs -> In g fs -> f_exported f = true -> f_exported g = true -> env_key f = env_key g -> f = g) /\ (forall f g, In f fs -> In g fs -> f_exported f = true -> env_key f = f_name g -> f = g).
Lemma nodup_name_inj fs f g : NoDup (map f_name fs) -> In f fs -> In g fs -> f_name f = f_name g -> f = g.
Proof.
  induction fs as [|h r IH]; cbn; [tauto|]. intros Hn Hf Hg E. inversion Hn as [|? ? Hh Hr]; subst.
  destruct Hf as [->|Hf], Hg as [->|Hg]; auto.
  - exfalso. apply Hh. rewrite E. now apply in_map.
  - exfalso. apply Hh. rewrite <- E. now apply in_map.
Qed.
Lemma addr_unique fs k f g : wf_struct fs -> In f fs -> In g fs -> addrb k f = true -> addrb k g = true -> f = g.
Proof.
  intros (W1 & W2 & W3) Hf Hg Af Ag. unfold addrb in *.
  apply andb_prop in Af. destruct Af as [Ef Af]. apply andb_prop in Ag. destruct Ag as [Eg Ag].
  apply orb_prop in Af. apply orb_prop in Ag.
  destruct Af as [Af|Af], Ag as [Ag|Ag]; apply bytes_eqb_eq in Af; apply bytes_eqb_eq in Ag.
  - apply W2; auto. congruence.
  - apply W3; auto. congruence.
  - symmetry. apply W3; auto. congruence.
  - eapply nodup_name_inj; eauto. congruence.
Qed.
Definition entries fs := flat_map field_entries fs.
Lemma field_entries_hit k f : addrb k f = true -> assocb k (field_entries f) = Some (conv (f_val f)).
Proof.
  unfold addrb, field_entries. intro H. apply andb_prop in H. destruct H as [-> H]. cbn.
  destruct (bytes_eqb_spec (env_key f) k); [reflexivity|]. cbn in H.
  destruct (bytes_eqb_spec (f_name f) (env_key f)) as [E|E].
  - rewrite E in H. destruct (bytes_eqb_spec (env_key f) k); congruence.
  - cbn. rewrite H. reflexivity.
Qed.
Lemma field_entries_miss k f : addrb k f = false -> assocb k (field_entries f) = None.
Proof.
  unfold addrb, field_entries. destruct (f_exported f); [|reflexivity]. cbn. intro H.
  apply orb_false_elim in H. destruct H as [H1 H2]. rewrite H1.
  destruct (bytes_eqb (f_name f) (env_key f)); cbn; [reflexivity|]. now rewrite H2.
Qed.
Lemma entries_hit fs k f : (forall g, In g fs -> addrb k g = true -> g = f) -> In f fs -> addrb k f = true ->
  assocb k (entries fs) = Some (conv (f_val f)).
Proof.
  unfold entries. induction fs as [|h r IH]; [intros _ []|]. intros Hu Hin Ha. cbn. rewrite assocb_app.
  destruct (addrb k h) eqn:Eh.
  - assert (h = f) by (apply Hu; [left; reflexivity|assumption]). subst h.
    now rewrite field_entries_hit.
  - rewrite field_entries_miss by assumption. destruct Hin as [->|Hin]; [congruence|].
    apply IH; auto. intros g Hg. apply Hu. now right.
Qed.
Lemma entries_miss fs k : (forall g, In g fs -> addrb k g = false) -> assocb k (entries fs) = None.
Proof.
  unfold entries. induction fs as [|h r IH]; [reflexivity|]. intro H. cbn. rewrite assocb_app.
  rewrite field_entries_miss by (apply H; now left). apply IH. intros g Hg. apply H. now right.
Qed.
Lemma field_by_name_In fs n f : field_by_name fs n = Some f -> In f fs /\ f_name f = n.
Proof.
  induction fs as [|g r IH]; cbn; [discriminate|]. destruct (bytes_eqb_spec (f_name g) n).
  - intros [= ->]. auto.
  - intro H. destruct (IH H). auto.
Qed.
Lemma field_by_tag_In fs n v : field_by_tag fs n = Some v ->
  exists f, In f fs /\ f_exported f = true /\ f_val f = v /\ tag_name (f_tag f) = n /\ f_tag f <> [].
Proof.
  induction fs as [|g r IH]; cbn; [discriminate|].
  destruct (negb (bytes_eqb (f_tag g) []) && f_exported g && bytes_eqb (tag_name (f_tag g)) n) eqn:E.
  - intros [= <-]. apply andb_prop in E. destruct E as [E E3]. apply andb_prop in E. destruct E as [E1 E2].
    exists g. repeat split; auto.
    + now apply bytes_eqb_eq.
    + intro H. rewrite H in E1. discriminate.
  - intro H. destruct (IH H) as (f & ? & ? & ? & ? & ?). exists f. auto.
Qed.
Lemma field_by_tag_hit fs k f : k <> [] -> In f fs -> f_exported f = true -> f_tag f <> [] -> tag_name (f_tag f) = k ->
  (forall g, In g fs -> addrb k g = true -> g = f) -> field_by_tag fs k = Some (f_val f).
Proof.
  intros Hk. induction fs as [|h r IH]; [intros []|]. intros Hin He Ht Hn Hu. cbn.
  destruct (negb (bytes_eqb (f_tag h) []) && f_exported h && bytes_eqb (tag_name (f_tag h)) k) eqn:E.
  - apply andb_prop in E. destruct E as [E E3]. apply andb_prop in E. destruct E as [E1 E2].
    apply bytes_eqb_eq in E3. assert (h = f); [|congruence]. apply Hu; [now left|].
    unfold addrb. rewrite E2. cbn [andb]. apply orb_true_iff. left. unfold env_key. rewrite E3.
    destruct k; [congruence|]. cbn [nonempty]. apply bytes_eqb_refl.
  - destruct Hin as [->|Hin].
    + exfalso. rewrite He, Hn, bytes_eqb_refl in E. destruct (bytes_eqb_spec (f_tag f) []); [congruence|discriminate].
    + apply IH; auto. intros g Hg. apply Hu. now right.
Qed.
Lemma field_by_tag_miss fs k : k <> [] -> (forall g, In g fs -> addrb k g = false) -> field_by_tag fs k = None.
Proof.
  intros Hk H. destruct (field_by_tag fs k) eqn:E; [|reflexivity].
  apply field_by_tag_In in E. destruct E as (f & Hin & He & _ & Hn & Ht).
  specialize (H f Hin). unfold addrb in H. rewrite He in H. cbn [andb] in H. apply orb_false_elim in H.
  destruct H as [H _]. unfold env_key in H. rewrite Hn in H.
  destruct k; [congruence|]. cbn [nonempty] in H. rewrite bytes_eqb_refl in H. discriminate.
Qed.
Lemma field_by_name_None fs k : field_by_name fs k = None -> forall g, In g fs -> f_name g <> k.
Proof.
  induction fs as [|h r IH]; cbn; [tauto|]. destruct (bytes_eqb_spec (f_name h) k); [discriminate|].
  intros H g [->|Hg]; auto.
Qed.
Lemma resolve_struct_hit fs k f : k <> [] -> wf_struct fs -> In f fs -> addrb k f = true ->
  resolve_struct fs k = Some (f_val f).
Proof.
  intros Hk Hwf Hin Ha.
  assert (Hu : forall g, In g fs -> addrb k g = true -> g = f) by (intros g Hg Hag; eapply addr_unique; eauto).
  assert (Hcase : f_name f = k \/ (f_name f <> k /\ f_tag f <> [] /\ tag_name (f_tag f) = k)).
  { unfold addrb in Ha. apply andb_prop in Ha. destruct Ha as [_ Ha].
    destruct (bytes_eqb_spec (f_name f) k); [now left|right]. cbn in Ha. rewrite orb_false_r in Ha.
    apply bytes_eqb_eq in Ha. unfold env_key in Ha. destruct (tag_name (f_tag f)) eqn:Et; cbn in Ha; [congruence|].
    repeat split; auto. intro H0. rewrite H0 in Et. discriminate. }
  assert (He : f_exported f = true) by (unfold addrb in Ha; apply andb_prop in Ha; tauto).
  unfold resolve_struct. destruct (field_by_name fs k) as [h|] eqn:En.
  - apply field_by_name_In in En. destruct En as [Hh Hhn]. destruct (f_exported h) eqn:Eh.
    + assert (h = f); [|congruence]. apply Hu; auto. unfold addrb. rewrite Eh. cbn.
      apply orb_true_iff. right. now apply bytes_eqb_eq.
    + destruct Hcase as [Hc|(Hc1 & Hc2 & Hc3)].
      * destruct Hwf as (W1 & _). assert (h = f) by (eapply nodup_name_inj; eauto; congruence). congruence.
      * apply field_by_tag_hit; auto.
  - destruct Hcase as [Hc|(Hc1 & Hc2 & Hc3)].
    + exfalso. eapply field_by_name_None; eauto.
    + apply field_by_tag_hit; auto.
Qed.
Lemma resolve_struct_miss fs k : k <> [] -> (forall g, In g fs -> addrb k g = false) -> resolve_struct fs k = None.
Proof.
  intros Hk H. unfold resolve_struct. destruct (field_by_name fs k) as [h|] eqn:En.
  - apply field_by_name_In in En. destruct En as [Hh Hhn]. destruct (f_exported h) eqn:Eh.
    + specialize (H h Hh). unfold addrb in H. rewrite Eh in H. cbn in H.
      apply orb_false_elim in H. destruct H as [_ H]. destruct (bytes_eqb_spec (f_name h) k); congruence.
    + now apply field_by_tag_miss.
  - now apply field_by_tag_miss.
Qed.
(* the environment's view of a root struct = Lookup's view, for every name *)
Lemma root_struct_agrees fs k : k <> [] -> wf_struct fs ->
  assocb k (root_fields (VStruct fs)) = option_map conv (resolve_struct fs k).
Proof.
  intros Hk Hwf. unfold root_fields. cbn [deref]. fold (entries fs).
  destruct (find (addrb k) fs) as [f|] eqn:Ef.
  - apply find_some in Ef. destruct Ef as [Hin Ha].
    rewrite (resolve_struct_hit fs k f Hk Hwf Hin Ha). cbn.
    apply entries_hit; auto. intros g Hg Hag. eapply addr_unique; eauto.
  - assert (forall g, In g fs -> addrb k g = false) as Hm by (intros g Hg; eapply find_none in Ef; eauto).
    rewrite (resolve_struct_miss fs k Hk Hm). cbn. now apply entries_miss.
Qed.
(* root data that is a map[string]any: same keys, same values *)
Lemma root_map_agrees m k : k <> [] -> assocb k (root_fields (VMap m)) = resolve_value (VMap m) k.
Proof. intro Hk. destruct k; [congruence|]. reflexivity. Qed.
Lemma envmap_agrees_struct_root s k fs : Forall uniq (scopes s) -> root s = VStruct fs -> wf_struct fs -> k <> [] ->
  assocb k (envmap s) = match look (scopes s) k with Some v => Some v | None => option_map conv (lookup s k) end.
Proof.
  intros Hu Hr Hwf Hk. rewrite envmap_spec by assumption. destruct (look (scopes s) k) eqn:El; [reflexivity|].
  unfold lookup. rewrite El, Hr. rewrite root_struct_agrees by assumption.
  destruct k; [congruence|]. reflexivity.
Qed.

(* ---- 6. path resolution ---- *)
(* an unexported field is never reached, neither by Go name nor by json tag *)
Lemma resolve_struct_exported fs n v : resolve_struct fs n = Some v ->
  exists f, In f fs /\ f_exported f = true /\ f_val f = v /\ (f_name f = n \/ tag_name (f_tag f) = n).
Proof.
  unfold resolve_struct. destruct (field_by_name fs n) as [f|] eqn:E.
  - destruct (f_exported f) eqn:Ex.
    + intros [= <-]. apply field_by_name_In in E. exists f. tauto.
    + intro H. apply field_by_tag_In in H. destruct H as (g & ? & ? & ? & ? & ?). exists g. tauto.
  - intro H. apply field_by_tag_In in H. destruct H as (g & ? & ? & ? & ? & ?). exists g. tauto.
Qed.
Lemma resolve_struct_by_name fs f : In f fs -> f_exported f = true ->
  (forall g, In g fs -> f_name g = f_name f -> g = f) ->
  resolve_struct fs (f_name f) = Some (f_val f).
Proof.
  intros Hin He Hu. unfold resolve_struct.
  assert (field_by_name fs (f_name f) = Some f) as ->; [|now rewrite He].
  induction fs as [|g r IH]; [destruct Hin|]. cbn. destruct (bytes_eqb_spec (f_name g) (f_name f)) as [E|E].
  - f_equal. apply Hu; [left; reflexivity|assumption].
  - destruct Hin as [->|Hin]; [congruence|]. apply IH; [assumption|]. intros g' Hg'. apply Hu. now right.
Qed.
(* slices and arrays: exactly Go's indexing, absence outside 0..len-1 and for non-numbers *)
Lemma index_spec l n v : index l n = Some v <->
  exists i, atoi n = Some (Z.of_nat i) /\ nth_error l i = Some v.
Proof.
  unfold index. destruct (atoi n) as [z|]; [|split; [discriminate|intros [i [H _]]; discriminate]].
  destruct (Z.leb 0 z && Z.ltb z (Z.of_nat (length l)))%Z eqn:E.
  - apply andb_prop in E. destruct E as [E1 E2]. apply Z.leb_le in E1. apply Z.ltb_lt in E2. split.
    + intro H. exists (Z.to_nat z). rewrite Z2Nat.id by assumption. auto.
    + intros [i [[= ->] H]]. now rewrite Nat2Z.id.
  - split; [discriminate|]. intros [i [[= ->] H]].
    assert (i < length l) by (apply nth_error_Some; congruence).
    apply andb_false_iff in E. destruct E as [E|E]; [apply Z.leb_gt in E|apply Z.ltb_ge in E]; lia.
Qed.
Lemma resolve_nil_ptr n : resolve_value (VPtr None) n = None.
Proof. destruct n; reflexivity. Qed.
Lemma resolve_through_ptr x n : resolve_value (VPtr (Some x)) n = resolve_value x n.
Proof. destruct n; [destruct x; reflexivity|reflexivity]. Qed.
Lemma resolve_mapi m n : resolve_value (VMapI m) n = None.
Proof. destruct n; reflexivity. Qed.
Lemma walk_app v p q : walk v (p ++ q) = match walk v p with Some x => walk x q | None => None end.
Proof.
  revert v; induction p as [|a p IH]; intro v; cbn; [reflexivity|].
  destruct (is_nil (resolve_step v a)); auto.
Qed.
Lemma step_missing_key m p : assocb p m = None -> resolve_step (VMap m) p = VNil.
Proof. unfold resolve_step. intros ->. reflexivity. Qed.
Lemma step_missing_key_s m p : assocb p m = None -> resolve_step (VMapS m) p = VNil.
Proof. unfold resolve_step. intros ->. reflexivity. Qed.
Lemma walk_absent v p r : resolve_step v p = VNil -> walk v (p :: r) = None.
Proof. cbn. intros ->. reflexivity. Qed.

(* ---- 7. splitting simple dotted paths ---- *)
Definition ident_byte (c : byte) : bool := negb (beq c x2e) && negb (beq c x5b) && negb (is_ws c).
Definition ident (s : bytes) : Prop := s <> [] /\ forallb ident_byte s = true.
Lemma drop_ws_ident s : ident s -> drop_ws s = s.
Proof.
  intros [Hne Hf]. destruct s as [|c r]; [congruence|]. cbn in *. apply andb_prop in Hf. destruct Hf as [Hc _].
  unfold ident_byte in Hc. destruct (is_ws c); [rewrite !andb_false_r in Hc; discriminate|reflexivity].
Qed.
Lemma ident_rev s : ident s -> ident (rev s).
Proof.
  intros [Hne Hf]. split.
  - intro H. apply Hne. rewrite <- (rev_involutive s), H. reflexivity.
  - rewrite forallb_forall in *. intros x Hx. apply Hf. now apply in_rev.
Qed.
Lemma trim_ident s : ident s -> trim s = s.
Proof.
  intro H. unfold trim. rewrite (drop_ws_ident s H), (drop_ws_ident _ (ident_rev s H)). apply rev_involutive.
Qed.
Lemma split_on_ident s rest : forallb ident_byte s = true ->
  split_on x2e (s ++ x2e :: rest) = s :: split_on x2e rest.
Proof.
  induction s as [|c r IH]; cbn; intro H.
  - rewrite beq_refl. reflexivity.
  - apply andb_prop in H. destruct H as [Hc Hr]. rewrite (IH Hr).
    unfold ident_byte in Hc. destruct (beq c x2e); [discriminate|reflexivity].
Qed.
Lemma split_on_ident_last s : forallb ident_byte s = true -> split_on x2e s = [s].
Proof.
  induction s as [|c r IH]; cbn; intro H; [reflexivity|].
  apply andb_prop in H. destruct H as [Hc Hr]. rewrite (IH Hr).
  unfold ident_byte in Hc. destruct (beq c x2e); [discriminate|reflexivity].
Qed.
Fixpoint dotted (ids : list bytes) : bytes :=
  match ids with [] => [] | [x] => x | x :: r => x ++ x2e :: dotted r end.
Lemma split_on_dotted ids : ids <> [] -> Forall ident ids -> split_on x2e (dotted ids) = ids.
Proof.
  induction ids as [|x r IH]; [congruence|]. intros _ H. inversion H as [|? ? [Hx1 Hx2] Hr]; subst.
  destruct r as [|y r].
  - cbn. now apply split_on_ident_last.
  - cbn [dotted]. rewrite split_on_ident by assumption. f_equal. apply IH; [discriminate|assumption].
Qed.
Lemma sanitize_idents ids : Forall ident ids -> sanitize ids = ids.
Proof.
  unfold sanitize. induction 1 as [|x r Hx _ IH]; cbn; [reflexivity|].
  rewrite (trim_ident x Hx). destruct Hx as [Hne _]. destruct x; [congruence|]. cbn. f_equal. exact IH.
Qed.
Lemma ident_bytes_no_bracket s : forallb ident_byte s = true -> mem_byte x5b s = false.
Proof.
  unfold mem_byte. induction s as [|c r IH]; cbn; [reflexivity|]. intro H. apply andb_prop in H. destruct H as [Hc Hr].
  rewrite (IH Hr). unfold ident_byte in Hc. destruct (beq_spec x5b c) as [E|E]; [|reflexivity].
  subst. rewrite beq_refl in Hc. cbn in Hc. rewrite andb_false_r in Hc. cbn in Hc. discriminate.
Qed.
Lemma dotted_ident_bytes ids : Forall ident ids -> forall c, In c (dotted ids) -> c = x2e \/ ident_byte c = true.
Proof.
  induction 1 as [|x r [Hx1 Hx2] Hr IH]; cbn; [tauto|]. intros c Hc.
  rewrite forallb_forall in Hx2. destruct r as [|y r].
  - right. now apply Hx2.
  - apply in_app_or in Hc. destruct Hc as [Hc|[<-|Hc]]; [right; now apply Hx2|now left|now apply IH].
Qed.
Lemma dotted_no_bracket ids : Forall ident ids -> mem_byte x5b (dotted ids) = false.
Proof.
  intro H. destruct (mem_byte x5b (dotted ids)) eqn:E; [|reflexivity].
  apply mem_byte_In in E. destruct (dotted_ident_bytes ids H _ E) as [H1|H1]; [discriminate|].
  unfold ident_byte in H1. rewrite beq_refl in H1. cbn in H1. rewrite andb_false_r in H1. cbn in H1. discriminate.
Qed.
Lemma dotted_head_tail ids : ids <> [] -> Forall ident ids ->
  (exists c r, dotted ids = c :: r /\ is_ws c = false) /\ (exists c r, rev (dotted ids) = c :: r /\ is_ws c = false).
Proof.
  intros Hne H. split.
  - destruct ids as [|x r]; [congruence|]. inversion H as [|? ? [Hx1 Hx2] Hr]; subst.
    destruct x as [|c x]; [congruence|]. cbn in Hx2. apply andb_prop in Hx2. destruct Hx2 as [Hc _].
    exists c. destruct r; cbn; eexists; split; try reflexivity;
    unfold ident_byte in Hc; destruct (is_ws c); try reflexivity; rewrite !andb_false_r in Hc; discriminate.
  - induction ids as [|x r IH]; [congruence|]. inversion H as [|? ? Hx Hr]; subst. destruct r as [|y r].
    + cbn. destruct (ident_rev x Hx) as [Hn Hf]. destruct (rev x) as [|c t]; [congruence|].
      cbn in Hf. apply andb_prop in Hf. destruct Hf as [Hc _]. exists c, t. split; [reflexivity|].
      unfold ident_byte in Hc. destruct (is_ws c); [rewrite !andb_false_r in Hc; discriminate|reflexivity].
    + destruct (IH ltac:(discriminate) Hr) as (c & t & E & Hc).
      change (dotted (x :: y :: r)) with (x ++ x2e :: dotted (y :: r)).
      rewrite rev_app_distr. change (rev (x2e :: dotted (y :: r))) with (rev (dotted (y :: r)) ++ [x2e]).
      rewrite E. cbn. eauto.
Qed.
Lemma trim_dotted ids : ids <> [] -> Forall ident ids -> trim (dotted ids) = dotted ids.
Proof.
  intros Hne H. destruct (dotted_head_tail ids Hne H) as [(c & r & E & Hc) (c' & r' & E' & Hc')].
  unfold trim. rewrite E. cbn [drop_ws]. rewrite Hc. rewrite <- E, E'. cbn [drop_ws]. rewrite Hc'.
  rewrite <- E'. apply rev_involutive.
Qed.
Lemma split_path_dotted ids : ids <> [] -> Forall ident ids -> split_path (dotted ids) = ids.
Proof.
  intros Hne H. unfold split_path. rewrite trim_dotted by assumption.
  destruct (dotted ids) eqn:E.
  - destruct (dotted_head_tail ids Hne H) as [(c & r & E' & _) _]. congruence.
  - rewrite <- E. rewrite dotted_no_bracket by assumption.
    rewrite split_on_dotted by assumption. now apply sanitize_idents.
Qed.
