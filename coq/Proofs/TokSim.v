(* generic facts about the tokenizer fragment used by the formatter's skeleton theorem: the tokens a run
   emits do not depend on the text accumulated so far; whitespace cannot leave a tag state; strings
   without a tag opener are plain character data *)
From Coq Require Import List Bool Arith Lia.
Import ListNotations.
From V Require Import Base.Bytes Model.Escape Proofs.EscapeP Model.Tok Proofs.TokP Model.Fmt Proofs.FmtP.

Inductive sim : st -> st -> Prop :=
| sim_data a b : sim (Data a) (Data b)
| sim_open a b : sim (TagOpen a) (TagOpen b)
| sim_refl s : sim s s.

Section Proj.
(* a projection of tokens that ignores character data: the skeleton (names only) or the tags themselves *)
Variable X : Type.
Variable pr : token -> list X.
Hypothesis pr_text : forall r, pr (TText r) = [].
Definition proj (l : list token) : list X := flat_map pr l.
Lemma proj_app a b : proj (a ++ b) = proj a ++ proj b.
Proof. apply flat_map_app. Qed.
Lemma proj_emit_text t : proj (emit_text t) = [].
Proof. destruct t; [reflexivity|]. cbn. now rewrite pr_text. Qed.

Lemma step_sim s s' c : sim s s' ->
  sim (fst (step s c)) (fst (step s' c)) /\ proj (snd (step s c)) = proj (snd (step s' c)).
Proof.
  destruct 1 as [a b | a b | s]; cbn [step].
  - destruct (beq c x3c); cbn; split; constructor || reflexivity.
  - destruct (is_alpha c); [cbn; split; [constructor|now rewrite !proj_emit_text]|].
    destruct (beq c x2f); [cbn; split; [constructor|now rewrite !proj_emit_text]|].
    destruct (beq c x21 || beq c x3f); [cbn; split; [constructor|now rewrite !proj_emit_text]|].
    destruct (beq c x3c); cbn; split; constructor || reflexivity.
  - split; [constructor|reflexivity].
Qed.
Lemma run_sim y : forall s s', sim s s' ->
  sim (fst (run s y)) (fst (run s' y)) /\ proj (snd (run s y)) = proj (snd (run s' y)).
Proof.
  induction y as [|c y IH]; intros s s' H; cbn [run]; [split; [exact H|reflexivity]|].
  destruct (step_sim s s' c H) as [H1 H2].
  destruct (step s c) as [s1 o1], (step s' c) as [s1' o1']. cbn [fst snd] in *.
  destruct (IH s1 s1' H1) as [H3 H4].
  destruct (run s1 y) as [s2 o2], (run s1' y) as [s2' o2']. cbn [fst snd] in *.
  split; [exact H3|]. now rewrite !proj_app, H2, H4.
Qed.

(* a data-state property of a byte string: from the data state, whatever text is pending, it is consumed
   back to the data state and emits tokens with skeleton S *)
Definition okd (y : bytes) (S : list X) : Prop :=
  forall txt, exists txt' out, run (Data txt) y = (Data txt', out) /\ proj out = S.
Lemma okd_nil : okd [] [].
Proof. intro txt. exists txt, []. split; reflexivity. Qed.
Lemma okd_app a b S1 S2 : okd a S1 -> okd b S2 -> okd (a ++ b) (S1 ++ S2).
Proof.
  intros Ha Hb txt. destruct (Ha txt) as (t1 & o1 & Hr1 & Hs1). destruct (Hb t1) as (t2 & o2 & Hr2 & Hs2).
  rewrite run_app, Hr1, Hr2. exists t2, (o1 ++ o2). split; [reflexivity|]. now rewrite proj_app, Hs1, Hs2.
Qed.
Lemma okd_plain y : ~ In x3c y -> okd y [].
Proof. intros H txt. rewrite (data_inert txt y H). eexists _, []. split; reflexivity. Qed.
(* it is enough to know it for one pending text *)
Lemma okd_from_one y S txt0 txt' out : run (Data txt0) y = (Data txt', out) -> proj out = S -> okd y S.
Proof.
  intros Hr Hs txt. destruct (run_sim y (Data txt0) (Data txt) (sim_data _ _)) as [H1 H2].
  rewrite Hr in H1, H2. cbn [fst snd] in *. destruct (run (Data txt) y) as [s o]. cbn [fst snd] in *.
  inversion H1; subst; (eexists _, o; split; [reflexivity|now rewrite <- H2]).
Qed.

(* ---- whitespace ---- *)
Definition uws_only (w : bytes) : bool := forallb is_uws w.
Lemma uws_facts c : is_uws c = true ->
  beq c x3c = false /\ beq c x3e = false /\ is_alpha c = false /\ beq c x2f = false /\ beq c x21 = false /\
  beq c x3f = false /\ beq c x3d = false /\ beq c x22 = false /\ beq c x27 = false.
Proof.
  unfold is_uws, is_hws. intro H.
  repeat (apply orb_true_iff in H; destruct H as [H|H]); apply beq_true in H; subst c; vm_compute; repeat split.
Qed.
Lemma uws_no_lt w : uws_only w = true -> ~ In x3c w.
Proof.
  unfold uws_only. intros H Hin. rewrite forallb_forall in H. specialize (H _ Hin). discriminate.
Qed.
Definition textual (s : st) : Prop := (exists t, s = Data t) \/ (exists t, s = TagOpen t).
(* a whitespace character cannot lead from a tag state to the data state *)
Lemma step_uws_data s c t : is_uws c = true -> fst (step s c) = Data t -> textual s /\ snd (step s c) = [].
Proof.
  intros Hc. destruct (uws_facts c Hc) as (F1 & F2 & F3 & F4 & F5 & F6 & F7 & F8 & F9).
  assert (Hh : is_hws c = true \/ is_hws c = false) by (destruct (is_hws c); auto).
  destruct s; cbn [step]; rewrite ?F1, ?F2, ?F3, ?F4, ?F5, ?F6, ?F7, ?F8, ?F9; cbn [orb fst snd];
    try solve [intro; split; [left; eexists; reflexivity|reflexivity]];
    try solve [intro; split; [right; eexists; reflexivity|reflexivity]];
    try discriminate;
    destruct Hh as [Hh|Hh]; rewrite ?Hh; cbn [orb fst snd]; try discriminate.
Qed.
Lemma step_to_open s c t : fst (step s c) = TagOpen t -> c = x3c.
Proof.
  destruct s; cbn [step];
    repeat match goal with |- context[if ?b then _ else _] => let E := fresh "E" in destruct b eqn:E end;
    cbn [fst]; try discriminate; intros _;
    match goal with E : beq c x3c = true |- _ => exact (beq_true _ _ E) end.
Qed.
(* whitespace read up to the data state: it started in a textual state and emitted nothing *)
Lemma ws_run w : uws_only w = true -> forall s t o, run s w = (Data t, o) ->
  o = [] /\ ((exists t1, s = Data t1) \/ (w <> [] /\ exists t1, s = TagOpen t1)).
Proof.
  induction w as [|c w IH]; intros Hw s t o Hr; cbn [run] in Hr.
  - injection Hr as -> <-. split; [reflexivity|left; eauto].
  - cbn [uws_only forallb] in Hw. apply andb_true_iff in Hw. destruct Hw as [Hc Hw].
    destruct (step s c) as [s1 o1] eqn:Es. destruct (run s1 w) as [s2 o2] eqn:Er.
    injection Hr as -> <-. destruct (IH Hw s1 t o2 Er) as [-> Hs1].
    assert (Hd : exists t1, s1 = Data t1).
    { destruct Hs1 as [Hd|[_ [t1 ->]]]; [exact Hd|]. exfalso.
      assert (Hx : c = x3c) by (apply (step_to_open s c t1); now rewrite Es).
      subst c. discriminate. }
    destruct Hd as [t1 ->].
    destruct (step_uws_data s c t1 Hc) as [Ht Ho]; [now rewrite Es|]. rewrite Es in Ho. cbn in Ho. subst o1.
    split; [reflexivity|]. destruct Ht as [Ht|Ht]; [left; exact Ht|right; split; [discriminate|exact Ht]].
Qed.

(* ---- strings without a tag opener ---- *)
Definition ends_lt (s : bytes) : bool := match rev s with c :: _ => beq c x3c | [] => false end.
Lemma no_tag_open_snoc o c : no_tag_open (o ++ [c]) = true ->
  no_tag_open o = true /\ (ends_lt o = true -> tag_start c = false).
Proof.
  induction o as [|a o IH]; [intros _; split; [reflexivity|discriminate]|].
  cbn [app no_tag_open]. destruct o as [|b o'].
  - cbn [app]. intro H. apply andb_true_iff in H. destruct H as [H _]. apply negb_true_iff in H.
    split; [reflexivity|]. unfold ends_lt. cbn. intro Ha. rewrite Ha in H. cbn in H. exact H.
  - cbn [app] in *. intro H. apply andb_true_iff in H. destruct H as [H1 H2]. destruct (IH H2) as [I1 I2].
    split; [now rewrite H1, I1|]. intro He. apply I2. unfold ends_lt in *. cbn [rev] in *.
    destruct (rev o' ++ [b]) eqn:E; [destruct (rev o'); discriminate|]. cbn [app] in He. exact He.
Qed.
Lemma ends_lt_snoc o c : ends_lt (o ++ [c]) = beq c x3c.
Proof. unfold ends_lt. now rewrite rev_app_distr. Qed.
(* from the data state such a string is character data; a trailing "<" is still pending *)
Lemma run_safe o : no_tag_open o = true -> forall txt,
  run (Data txt) o = (if ends_lt o then TagOpen (txt ++ removelast o) else Data (txt ++ o), []).
Proof.
  induction o as [|c o IH] using rev_ind; intros Hn txt; [cbn; now rewrite app_nil_r|].
  destruct (no_tag_open_snoc o c Hn) as [Ho Hc]. rewrite run_app, (IH Ho txt), ends_lt_snoc.
  rewrite removelast_last. cbn [run]. destruct (ends_lt o) eqn:Ee.
  - specialize (Hc eq_refl). unfold tag_start in Hc.
    apply orb_false_iff in Hc. destruct Hc as [Hc H3]. apply orb_false_iff in Hc. destruct Hc as [Hc H2].
    apply orb_false_iff in Hc. destruct Hc as [H0 H1].
    cbn [step]. rewrite H0, H1, H2, H3. cbn [orb].
    assert (Hl : o = removelast o ++ [x3c]).
    { unfold ends_lt in Ee. destruct (rev o) as [|d r] eqn:Er; [discriminate|]. apply beq_true in Ee. subst d.
      apply (f_equal (@rev _)) in Er. rewrite rev_involutive in Er. cbn in Er. subst o.
      now rewrite removelast_last. }
    destruct (beq c x3c) eqn:Ec.
    + apply beq_true in Ec. subst c. rewrite <- app_assoc, <- Hl. reflexivity.
    + rewrite Hl at 2. now rewrite <- !app_assoc.
  - cbn [step]. destruct (beq c x3c) eqn:Ec; [reflexivity|]. now rewrite <- app_assoc.
Qed.
Lemma okd_safe o : no_tag_open o = true -> ends_lt o = false -> okd o [].
Proof. intros Hn He txt. rewrite (run_safe o Hn txt), He. eexists _, []. split; reflexivity. Qed.

(* ---- "<" is never followed by whitespace only ---- *)
Definition lt_ok (y : bytes) : Prop := forall pre post, y = pre ++ x3c :: post -> uws_only post = false.
Lemma lt_ok_plain y : ~ In x3c y -> lt_ok y.
Proof. intros H pre post E. exfalso. apply H. rewrite E. apply in_or_app. right. now left. Qed.
Lemma uws_only_app a b : uws_only (a ++ b) = uws_only a && uws_only b.
Proof. apply forallb_app. Qed.
Lemma lt_ok_app a b : lt_ok a -> lt_ok b -> lt_ok (a ++ b).
Proof.
  intros Ha Hb pre post E.
  assert (Hcase : (exists q, a = pre ++ x3c :: q /\ post = q ++ b) \/ (exists p, pre = a ++ p /\ b = p ++ x3c :: post)).
  { clear Ha Hb. revert pre E. induction a as [|x a IH]; intros pre E.
    - right. exists pre. split; [reflexivity|exact E].
    - destruct pre as [|y pre]; cbn [app] in E.
      + injection E as -> E. left. exists a. split; [reflexivity|now symmetry].
      + injection E as -> E. destruct (IH pre E) as [(q & -> & ->)|(p & -> & ->)].
        * left. exists q. split; reflexivity.
        * right. exists p. split; reflexivity. }
  destruct Hcase as [(q & Ea & ->)|(p & _ & Eb)].
  - rewrite uws_only_app. rewrite (Ha pre q Ea). reflexivity.
  - exact (Hb p post Eb).
Qed.
(* a string that ends in a character that is neither whitespace nor "<" *)
Lemma lt_ok_last y c : is_uws c = false -> beq c x3c = false -> lt_ok (y ++ [c]).
Proof.
  intros Hw Hc pre post E. destruct post as [|d post] using rev_ind.
  - exfalso. apply (f_equal (@rev _)) in E. rewrite !rev_app_distr in E. cbn in E. injection E as E _.
    subst c. rewrite beq_refl in Hc. discriminate.
  - clear IHpost. replace (pre ++ x3c :: post ++ [d]) with ((pre ++ x3c :: post) ++ [d]) in E by now rewrite <- app_assoc.
    apply app_inj_tail in E. destruct E as [_ ->]. rewrite uws_only_app. cbn. rewrite Hw. now rewrite andb_false_r.
Qed.
End Proj.
