From Coq Require Import List Bool Arith Lia.
Import ListNotations.
From V Require Import Base.Bytes Model.Escape Proofs.EscapeP Model.Tok Proofs.TokP Proofs.RoundTrip Model.Md.

Section InlineInd.
  Variable P : inline -> Prop.
  Hypotheses (H1 : forall s, P (IText s)) (H2 : forall s, P (ICode s))
             (H3 : forall st l, Forall P l -> P (IEm st l)) (H4 : forall h t l, Forall P l -> P (ILink h t l))
             (H5 : forall s a t, P (IImage s a t)) (H6 : forall h l, P (IAuto h l))
             (H7 : forall l, Forall P l -> P (IDel l)) (H8 : P IBreak) (H9 : forall c, P (ICheck c)).
  Fixpoint inline_ind' (i : inline) : P i :=
    let go := fix go (l : list inline) : Forall P l :=
      match l with [] => Forall_nil _ | x :: r => Forall_cons _ (inline_ind' x) (go r) end in
    match i with
    | IText s => H1 s | ICode s => H2 s | IEm st l => H3 st l (go l) | ILink h t l => H4 h t l (go l)
    | IImage s a t => H5 s a t | IAuto h l => H6 h l | IDel l => H7 l (go l) | IBreak => H8 | ICheck c => H9 c
    end.
End InlineInd.
Section BlockInd.
  Variable P : block -> Prop.
  Hypotheses (H1 : forall l, P (BPara l)) (H2 : forall l, P (BText l)) (H3 : forall lv l, P (BHeading lv l))
             (H4 : forall a b, P (BCode a b)) (H5 : forall l, Forall P l -> P (BQuote l))
             (H6 : forall o s items, Forall (Forall P) items -> P (BList o s items))
             (H7 : P BHr) (H8 : forall h r, P (BTable h r)).
  Fixpoint block_ind' (b : block) : P b :=
    let go := fix go (l : list block) : Forall P l :=
      match l with [] => Forall_nil _ | x :: r => Forall_cons _ (block_ind' x) (go r) end in
    match b with
    | BPara l => H1 l | BText l => H2 l | BHeading lv l => H3 lv l | BCode a c => H4 a c
    | BQuote l => H5 l (go l)
    | BList o s items => H6 o s items ((fix goo (ll : list (list block)) : Forall (Forall P) ll :=
                           match ll with [] => Forall_nil _ | x :: r => Forall_cons _ (go x) (goo r) end) items)
    | BHr => H7 | BTable h r => H8 h r
    end.
End BlockInd.

Lemma flat_map_flat_map {A} (f : A -> bytes) (g : A -> list node) l :
  Forall (fun x => f x = flat_map ser (g x)) l -> flat_map f l = flat_map ser (flat_map g l).
Proof. induction 1 as [|x r Hx _ IH]; cbn; [reflexivity|]. now rewrite Hx, IH, flat_map_app. Qed.
Lemma tpl_ser t a content k : content = flat_map ser k -> tpl t a content = ser (Elem t a k).
Proof. intros ->. reflexivity. Qed.

(* every inline node, rendered through its template, IS the serialisation of its reference DOM *)
Theorem md_inline_is_ser : forall i, md_i i = flat_map ser (ref_i i).
Proof.
  induction i as [s | s | st l IH | h t l IH | s a t | h lbl | l IH | | c] using inline_ind';
    cbn [md_i ref_i flat_map]; rewrite ?app_nil_r.
  - reflexivity.
  - apply tpl_ser. cbn. now rewrite app_nil_r.
  - apply tpl_ser. now apply flat_map_flat_map.
  - apply tpl_ser. now apply flat_map_flat_map.
  - apply tpl_ser. reflexivity.
  - apply tpl_ser. cbn. now rewrite app_nil_r.
  - apply tpl_ser. now apply flat_map_flat_map.
  - apply tpl_ser. reflexivity.
  - apply tpl_ser. reflexivity.
Qed.
Lemma md_inlines l : flat_map md_i l = flat_map ser (flat_map ref_i l).
Proof. apply flat_map_flat_map. apply Forall_forall. intros x _. apply md_inline_is_ser. Qed.
Lemma md_cells tag l : flat_map (md_cell tag) l = flat_map ser (map (ref_cell tag) l).
Proof.
  induction l as [|c r IH]; [reflexivity|]. cbn [flat_map map]. rewrite IH. f_equal.
  unfold md_cell, ref_cell. apply tpl_ser. apply md_inlines.
Qed.
Theorem md_block_is_ser : forall b, md_b b = flat_map ser (ref_b b).
Proof.
  induction b as [l | l | lv l | lang code | bl IH | o st items IH | | hd rows] using block_ind';
    cbn [md_b ref_b flat_map]; rewrite ?app_nil_r.
  - apply tpl_ser, md_inlines.
  - apply md_inlines.
  - apply tpl_ser, md_inlines.
  - apply tpl_ser. cbn [flat_map]. rewrite app_nil_r. apply tpl_ser. cbn. now rewrite app_nil_r.
  - apply tpl_ser. now apply flat_map_flat_map.
  - apply tpl_ser. induction IH as [|it r Hit _ IHr]; [reflexivity|]. cbn [flat_map map]. rewrite IHr. f_equal.
    apply tpl_ser. now apply flat_map_flat_map.
  - apply tpl_ser. reflexivity.
  - apply tpl_ser. cbn [flat_map]. rewrite app_nil_r. f_equal.
    + apply tpl_ser. cbn [flat_map]. rewrite app_nil_r. apply tpl_ser. apply md_cells.
    + apply tpl_ser. induction rows as [|r rs IHr]; [reflexivity|]. cbn [flat_map map]. rewrite IHr. f_equal.
      apply tpl_ser. apply md_cells.
Qed.
Theorem md_doc_is_ser d : md_doc d = flat_map ser (ref_doc d).
Proof. unfold md_doc, ref_doc. apply flat_map_flat_map. apply Forall_forall. intros b _. apply md_block_is_ser. Qed.

(* reading the vuego output back gives the reference DOM *)
Theorem md_agrees d :
  forallb wf (ref_doc d) = true -> nf_list nf (ref_doc d) = true ->
  build (tokens (md_doc d)) [] [] = Some (ref_doc d).
Proof. intros Hw Hn. rewrite md_doc_is_ser. now apply ser_roundtrip. Qed.

(* literal characters: whatever bytes a text segment, code span, code block, link destination or title
   holds - < & quotes, references, mustache braces - they arrive as text / attribute value, never as markup *)
Theorem md_literal_text s : s <> [] ->
  build (tokens (md_doc [BPara [IText s]])) [] [] = Some [Elem (bs "p") [] [Text s]].
Proof. intro Hs. apply (md_agrees [BPara [IText s]]); cbn; destruct s; try congruence; reflexivity. Qed.
Theorem md_literal_code lang code : code <> [] ->
  build (tokens (md_doc [BCode lang code])) [] [] = Some (ref_doc [BCode lang code]).
Proof.
  intro Hs. apply md_agrees; cbn; destruct code; try congruence; destruct (nonempty lang); reflexivity.
Qed.
Theorem md_literal_link h t s : s <> [] ->
  build (tokens (md_doc [BPara [ILink h t [IText s]]])) [] [] = Some (ref_doc [BPara [ILink h t [IText s]]]).
Proof.
  intro Hs. apply md_agrees; destruct s; try congruence; destruct t; vm_compute; reflexivity.
Qed.
