From Coq Require Import List Bool Arith Lia.
Import ListNotations.
From V Require Import Base.Bytes Model.Depth.

Definition is_err (r : res) : bool := match r with Ok _ => false | _ => true end.

Section P.
Variable fs : files.

(* an inclusion path of n steps starts at f *)
Fixpoint has_path (n : nat) (f : nat) : Prop :=
  match n with
  | O => True
  | S n' => exists its i, nth_error fs f = Some its /\ In i its /\ has_path n' (target i)
  end.
(* f reaches g in exactly k inclusion steps *)
Fixpoint steps (k : nat) (f g : nat) : Prop :=
  match k with
  | O => f = g
  | S k' => exists its i, nth_error fs f = Some its /\ In i its /\ steps k' (target i) g
  end.

Lemma items_err rec its i : In i its -> is_err (rec (target i)) = true -> is_err (items rec its) = true.
Proof.
  induction its as [|j r IH]; intros Hin He; [destruct Hin|]. cbn [items].
  destruct (rec (target j)) as [b| |] eqn:Ej; try reflexivity.
  destruct Hin as [->|Hin]; [rewrite Ej in He; discriminate|].
  specialize (IH Hin He). destruct (items rec r); [discriminate|reflexivity|reflexivity].
Qed.
Lemma items_ok rec its : (forall i, In i its -> exists b, rec (target i) = Ok b) -> exists b, items rec its = Ok b.
Proof.
  induction its as [|j r IH]; intro H; [now exists []|]. cbn [items].
  destruct (H j (or_introl eq_refl)) as [b ->].
  destruct IH as [b' ->]; [intros i Hi; apply H; now right|]. eauto.
Qed.
Lemma body_err f r : is_err r = true -> is_err (body f r) = true.
Proof. destruct r; cbn; auto. Qed.

(* 1. a chain of d+1 nested includes starting at f - whatever else the files contain - is an error,
      never output and never unbounded recursion *)
Theorem deep_path_is_error d : forall f, has_path (S d) f -> is_err (render fs d f) = true.
Proof.
  induction d as [|d IH]; intros f (its & i & Hf & Hi & Hp); cbn [render]; rewrite Hf; apply body_err.
  - apply (items_err _ its i Hi). reflexivity.
  - apply (items_err _ its i Hi). apply IH. exact Hp.
Qed.

(* 2. no false alarm: when every file named exists and no chain of d+1 includes starts at f, the render
      succeeds *)
Definition closed : Prop := forall f its i, nth_error fs f = Some its -> In i its -> target i < length fs.
Theorem shallow_is_ok d : closed -> forall f, f < length fs -> ~ has_path (S d) f -> exists b, render fs d f = Ok b.
Proof.
  intro Hc. induction d as [|d IH]; intros f Hlt Hn; cbn [render];
    destruct (nth_error fs f) as [its|] eqn:Hf; try (apply nth_error_None in Hf; lia).
  - destruct its as [|i r].
    + cbn. eauto.
    + exfalso. apply Hn. exists (i :: r), i. repeat split; [assumption|now left].
  - destruct (items_ok (fun g => render fs d g) its) as [b Hb].
    + intros i Hi. apply IH; [eapply Hc; eauto|]. intro Hp. apply Hn. exists its, i. auto.
    + rewrite Hb. cbn. eauto.
Qed.

(* paths compose, shorten and wind around cycles *)
Lemma steps_path k : forall f g m, steps k f g -> has_path m g -> has_path (k + m) f.
Proof.
  induction k as [|k IH]; intros f g m Hs Hp; cbn in *; [now subst|].
  destruct Hs as (its & i & Hf & Hi & Hs). exists its, i. repeat split; try assumption. eapply IH; eauto.
Qed.
Lemma has_path_le n : forall f m, m <= n -> has_path n f -> has_path m f.
Proof.
  induction n as [|n IH]; intros f m Hle Hp; [replace m with 0 by lia; exact I|].
  destruct m as [|m]; [exact I|]. destruct Hp as (its & i & Hf & Hi & Hp).
  exists its, i. repeat split; try assumption. apply IH; [lia|assumption].
Qed.
Lemma cycle_paths k g : 0 < k -> steps k g g -> forall n, has_path n g.
Proof.
  intros Hk Hs n. apply (has_path_le (n * k)); [nia|].
  induction n as [|n IH]; [exact I|]. cbn [Nat.mul]. eapply steps_path; eauto.
Qed.
(* 3. every cycle shape: a file from which a cycle of includes can be reached renders to an error at
      EVERY depth limit - in particular a file that includes itself *)
Theorem reachable_cycle_is_error j k f g d :
  steps j f g -> 0 < k -> steps k g g -> is_err (render fs d f) = true.
Proof.
  intros Hfg Hk Hgg. apply deep_path_is_error.
  apply (has_path_le (j + S d)); [lia|]. eapply steps_path; [exact Hfg|]. now apply (cycle_paths k).
Qed.
Corollary self_include_is_error f its i d :
  nth_error fs f = Some its -> In i its -> target i = f -> is_err (render fs d f) = true.
Proof.
  intros Hf Hi Ht. apply (reachable_cycle_is_error 0 1 f f); [reflexivity|lia|].
  exists its, i. repeat split; assumption.
Qed.

(* 4. bounded work: the number of include evaluations is bounded by a function of the limit and the
      widest file alone, whatever the graph *)
Fixpoint calls_items (rec : nat -> nat * bool) (its : list item) : nat * bool :=
  match its with
  | [] => (0, true)
  | i :: r => let '(n, ok) := rec (target i) in
              if ok then let '(n', ok') := calls_items rec r in (n + n', ok') else (n, false)
  end.
Fixpoint calls (d : nat) (f : nat) : nat * bool :=   (* evalInclude entries below f, success *)
  match nth_error fs f with
  | None => (0, false)
  | Some its => calls_items (fun g => match d with O => (1, false) | S d' => let '(n, ok) := calls d' g in (S n, ok) end) its
  end.
Definition width : nat := fold_right (fun its a => Nat.max (length its) a) 0 fs.
Fixpoint geo (b d : nat) : nat := match d with O => b | S d' => b + b * geo b d' end.
Lemma width_ge f its : nth_error fs f = Some its -> length its <= width.
Proof.
  unfold width. revert f. induction fs as [|x r IH]; intros f H; [destruct f; discriminate|].
  destruct f as [|f]; cbn in *; [injection H as ->; lia|]. specialize (IH _ H). lia.
Qed.
Lemma calls_items_bound rec its c : (forall g, fst (rec g) <= c) -> fst (calls_items rec its) <= length its * c.
Proof.
  intro H. induction its as [|i r IH]; cbn; [lia|].
  specialize (H (target i)). destruct (rec (target i)) as [n ok]. cbn in H.
  destruct ok; [destruct (calls_items rec r) as [n' ok']; cbn in *; lia|cbn; lia].
Qed.
Theorem calls_bounded d : forall f, fst (calls d f) <= geo width d.
Proof.
  induction d as [|d IH]; intro f; cbn [calls]; destruct (nth_error fs f) as [its|] eqn:Hf; cbn; try lia.
  - pose proof (calls_items_bound (fun _ => (1, false)) its 1 (fun _ => le_n _)) as H.
    pose proof (width_ge _ _ Hf). lia.
  - pose proof (calls_items_bound (fun g => let '(n, ok) := calls d g in (S n, ok)) its (S (geo width d))) as H.
    pose proof (width_ge _ _ Hf) as Hw.
    assert (Hg : forall g, fst (let '(n, ok) := calls d g in (S n, ok)) <= S (geo width d)).
    { intro g. specialize (IH g). destruct (calls d g). cbn in *. lia. }
    specialize (H Hg). nia.
Qed.
End P.
