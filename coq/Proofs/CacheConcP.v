From Coq Require Import List Bool Arith Lia.
Import ListNotations.
From V Require Import Model.CacheConc.

Section P.
Variable value : Type.
Variable f : nat -> nat -> value.
Notation state := (state value). Notation tstate := (tstate value). Notation result := (result value).
Notation step := (step value f). Notation run := (run value f). Notation init := (init value).

Definition rkey (r : result) : nat := fst (fst (fst r)).
Definition pending (p : phase) : list nat := match p with Idle => [] | Statted k _ => [k] | Missed k _ => [k] end.
(* the value returned is the function of SOME version the file had between the lookup's first and last step *)
Definition result_ok (v0 vnow : nat -> nat) (r : result) : Prop :=
  let '(k, lo, hi, v) := r in v0 k <= lo /\ hi <= vnow k /\ exists u, lo <= u <= hi /\ v = f u k.
Definition phase_ok (v0 vnow : nat -> nat) (p : phase) : Prop :=
  match p with Idle => True | Statted k m => v0 k <= m <= vnow k | Missed k m => v0 k <= m <= vnow k end.
Definition coherent (vnow : nat -> nat) (c : cache value) : Prop :=
  forall k m v, c k = Some (m, v) -> exists u, m <= u <= vnow k /\ v = f u k.
Definition thread_ok (v0 vnow : nat -> nat) (w : list nat) (th : tstate) : Prop :=
  phase_ok v0 vnow (ph _ th) /\ Forall (result_ok v0 vnow) (results _ th) /\
  w = map rkey (results _ th) ++ pending (ph _ th) ++ todo _ th.
Definition inv (v0 : nat -> nat) (work : nat -> list nat) (s : state) : Prop :=
  (forall k, v0 k <= ver _ s k) /\ coherent (ver _ s) (shared _ s) /\
  forall t, thread_ok v0 (ver _ s) (work t) (threads _ s t).

Lemma result_ok_mono v0 v1 v2 r : (forall k, v1 k <= v2 k) -> result_ok v0 v1 r -> result_ok v0 v2 r.
Proof. destruct r as [[[k lo] hi] v]. intros Hm (H1 & H2 & H3). repeat split; auto. specialize (Hm k). lia. Qed.
Lemma phase_ok_mono v0 v1 v2 p : (forall k, v1 k <= v2 k) -> phase_ok v0 v1 p -> phase_ok v0 v2 p.
Proof. intros Hm. destruct p as [|k m|k m]; cbn; auto; specialize (Hm k); lia. Qed.

Lemma updt_same (ts : nat -> tstate) t x : updt _ ts t x t = x.
Proof. unfold updt. now rewrite Nat.eqb_refl. Qed.
Lemma updt_other (ts : nat -> tstate) t x u : u <> t -> updt _ ts t x u = ts u.
Proof. unfold updt. intro H. apply Nat.eqb_neq in H. now rewrite H. Qed.

Lemma step_inv v0 work s e : inv v0 work s -> inv v0 work (step s e).
Proof.
  intros (Hv & Hc & Ht). destruct e as [t|k0].
  - (* a thread step *)
    cbn [CacheConc.step]. destruct (Ht t) as (Hp & Hr & Hw).
    (* every thread other than t is untouched when only t's record changes *)
    assert (Hoth : forall x u, u <> t -> thread_ok v0 (ver _ s) (work u) (updt _ (threads _ s) t x u)).
    { intros x u Hu. rewrite updt_other by assumption. apply Ht. }
    destruct (ph _ (threads _ s t)) as [|k m|k m] eqn:Ep.
    + destruct (todo _ (threads _ s t)) as [|k r] eqn:Et; [exact (conj Hv (conj Hc Ht))|].
      split; [exact Hv|split; [exact Hc|]]. cbn [ver shared threads].
      intro u. destruct (Nat.eq_dec u t) as [->|Hu]; [rewrite updt_same|now apply Hoth].
      split; [|split]; cbn [ph results todo phase_ok].
      * specialize (Hv k). lia.
      * exact Hr.
      * rewrite Hw. reflexivity.
    + cbn [phase_ok] in Hp.
      assert (Hmiss : inv v0 work {| shared := shared _ s; ver := ver _ s;
                 threads := updt _ (threads _ s) t {| todo := todo _ (threads _ s t); ph := Missed k m; results := results _ (threads _ s t) |} |}).
      { split; [exact Hv|split; [exact Hc|]]. cbn [ver shared threads].
        intro u. destruct (Nat.eq_dec u t) as [->|Hu]; [rewrite updt_same|now apply Hoth].
        split; [|split]; cbn [ph results todo phase_ok]; [exact Hp|exact Hr|exact Hw]. }
      destruct (shared _ s k) as [[m' v]|] eqn:Es; [|exact Hmiss].
      destruct (Nat.eqb m' m) eqn:Em; [|exact Hmiss]. apply Nat.eqb_eq in Em. subst m'.
      split; [exact Hv|split; [exact Hc|]]. cbn [ver shared threads].
      intro u. destruct (Nat.eq_dec u t) as [->|Hu]; [rewrite updt_same|now apply Hoth].
      split; [|split]; cbn [ph results todo phase_ok]; [exact I| |].
      * apply Forall_app. split; [assumption|]. constructor; [|constructor].
        destruct (Hc _ _ _ Es) as (x & Hx & ->). cbn. split; [lia|split; [lia|]]. exists x. split; [lia|reflexivity].
      * rewrite Hw, map_app. cbn. rewrite <- app_assoc. reflexivity.
    + cbn [phase_ok] in Hp. split; [exact Hv|split]; cbn [ver shared threads].
      * intros x m0 v. unfold updc. destruct (Nat.eqb x k) eqn:E; [|apply Hc].
        apply Nat.eqb_eq in E. subst x. intros [= <- <-]. exists (ver _ s k). split; [lia|reflexivity].
      * intro u. destruct (Nat.eq_dec u t) as [->|Hu]; [rewrite updt_same|now apply Hoth].
        split; [|split]; cbn [ph results todo phase_ok]; [exact I| |].
        -- apply Forall_app. split; [assumption|]. constructor; [|constructor].
           cbn. split; [lia|split; [lia|]]. exists (ver _ s k). split; [lia|reflexivity].
        -- rewrite Hw, map_app. cbn. rewrite <- app_assoc. reflexivity.
  - (* the file behind k0 is modified: versions only grow *)
    cbn [CacheConc.step].
    assert (Hm : forall k, ver _ s k <= (if Nat.eqb k k0 then S (ver _ s k) else ver _ s k)).
    { intro k. destruct (Nat.eqb k k0); lia. }
    split; [|split]; cbn [ver shared threads].
    + intro k. specialize (Hv k). specialize (Hm k). lia.
    + intros k m v Hs. destruct (Hc _ _ _ Hs) as (x & Hx & ->). exists x. split; [|reflexivity]. specialize (Hm k). lia.
    + intro t. destruct (Ht t) as (Hp & Hr & Hw). split; [|split].
      * eapply phase_ok_mono; [exact Hm|exact Hp].
      * eapply Forall_impl; [|exact Hr]. intros r. apply result_ok_mono. exact Hm.
      * exact Hw.
Qed.

Lemma run_inv v0 work schedule s : inv v0 work s -> inv v0 work (run s schedule).
Proof. revert s. induction schedule as [|e r IH]; intros s H; cbn; [exact H|]. apply IH. now apply step_inv. Qed.

Lemma init_inv c0 v0 work : coherent v0 c0 -> inv v0 work (init c0 v0 work).
Proof.
  intro Hc. split; [intro k; cbn; lia|split; [exact Hc|]]. intro t. cbn.
  split; [exact I|split; [constructor|reflexivity]].
Qed.

(* 1. EVERY schedule, files modified at any moment: each finished lookup returned the function of a
      version the file had while the lookup was running, and a thread's lookups are its work, in order *)
Theorem cache_windows c0 v0 work schedule t :
  coherent v0 c0 ->
  let s := run (init c0 v0 work) schedule in
  Forall (result_ok v0 (ver _ s)) (results _ (threads _ s t)) /\
  work t = map rkey (results _ (threads _ s t)) ++ pending (ph _ (threads _ s t)) ++ todo _ (threads _ s t).
Proof.
  intros Hc s. destruct (run_inv v0 work schedule _ (init_inv c0 v0 work Hc)) as (_ & _ & Ht).
  destruct (Ht t) as (_ & Hr & Hw). split; assumption.
Qed.

(* 2. files not modified during the run: whatever the other threads did to the cache, and in whatever
      order, a thread that has finished got exactly f (version) on each of its keys - what it gets alone *)
Definition no_touch (schedule : list event) : Prop := forall k, ~ In (Touch k) schedule.
Lemma run_ver_static schedule : no_touch schedule -> forall s, ver _ (run s schedule) = ver _ s.
Proof.
  induction schedule as [|e r IH]; intros Hn s; [reflexivity|]. cbn [CacheConc.run fold_left].
  change (ver _ (run (step s e) r) = ver _ s). rewrite IH.
  - destruct e as [t|k]; [|exfalso; apply (Hn k); now left].
    cbn [CacheConc.step]. destruct (ph _ (threads _ s t)) as [|k m|k m].
    + destruct (todo _ (threads _ s t)); reflexivity.
    + destruct (shared _ s k) as [[m' v]|]; [destruct (Nat.eqb m' m)|]; reflexivity.
    + reflexivity.
  - intros k Hk. apply (Hn k). now right.
Qed.
Definition rval (r : result) : value := snd r.
Theorem cache_transparent c0 v0 work schedule t :
  coherent v0 c0 -> no_touch schedule ->
  let s := run (init c0 v0 work) schedule in
  ph _ (threads _ s t) = Idle -> todo _ (threads _ s t) = [] ->
  map rval (results _ (threads _ s t)) = map (fun k => f (v0 k) k) (work t).
Proof.
  intros Hc Hn s Hp Hd. destruct (cache_windows c0 v0 work schedule t Hc) as [Hr Hw]. fold s in Hr, Hw.
  rewrite Hp, Hd in Hw. cbn in Hw. rewrite app_nil_r in Hw. rewrite Hw, map_map.
  assert (Hv : ver _ s = v0) by (unfold s; rewrite run_ver_static by assumption; reflexivity).
  rewrite Hv in Hr. clear -Hr. induction Hr as [|r rs Hr _ IH]; [reflexivity|].
  cbn [map]. rewrite IH. f_equal. destruct r as [[[k lo] hi] v]. cbn in *.
  destruct Hr as (H1 & H2 & u & Hu & ->). unfold rkey. cbn. f_equal. lia.
Qed.
End P.
