From V Require Import Base.Bytes Model.Escape Proofs.EscapeP Model.Tok Proofs.TokP Proofs.RoundTrip Proofs.Padded.
Definition spaces (n : nat) : bytes := repeat x20 n.
Definition nl : bytes := [x0a].
Lemma ws_spaces n : wsonly (spaces n) = true.
Proof. induction n; cbn; [reflexivity|exact IHn]. Qed.
Lemma ws_nl : wsonly nl = true. Proof. reflexivity. Qed.
Lemma ws_nil : wsonly [] = true. Proof. reflexivity. Qed.
Lemma ws_app a b : wsonly a = true -> wsonly b = true -> wsonly (a ++ b) = true.
Proof. unfold wsonly. intros Ha Hb. now rewrite forallb_app, Ha, Hb. Qed.
Lemma escape_ws s : wsonly s = true -> escape s = s.
Proof.
  induction s as [|c s IH]; [reflexivity|]. cbn [wsonly forallb]. intro H. apply andb_true_iff in H.
  destruct H as [Hc Hs]. rewrite escape_cons, (IH Hs).
  assert (He : esc1 c = [c]).
  { unfold esc1. unfold is_hws in Hc.
    bcase c x26; [discriminate|]. bcase c x27; [discriminate|]. bcase c x3c; [discriminate|].
    bcase c x3e; [discriminate|]. bcase c x22; [discriminate|]. reflexivity. }
  now rewrite He.
Qed.

Section Kids.
  Variable pr : nat -> node -> bytes.
  Definition pr_kids (ind : nat) (k : list node) : bytes := flat_map (pr ind) k.
End Kids.
(* pre and textarea: the content is written by the verbatim serialiser (component.go:renderNodeVerbatim) -
   the plain serialisation, nothing added or removed - after one extra line feed when the content itself
   begins with one (a parser drops the first line feed after these start tags) *)
Definition is_verbatim (t : bytes) : bool := bytes_eqb t (bs "pre") || bytes_eqb t (bs "textarea").
(* what a parser does to the first text after a pre / textarea start tag (x/net/html parse.go inBodyIM, textIM):
   a carriage return is dropped, then a line feed *)
Definition parser_drop (d : bytes) : bytes :=
  let d1 := match d with c :: r => if beq c x0d then r else d | [] => [] end in
  match d1 with c :: r => if beq c x0a then r else d1 | [] => [] end.
Definition starts_break (s : bytes) : bool := match s with c :: _ => beq c x0a || beq c x0d | [] => false end.
Definition starts_nl (k : list node) : bool := match k with Text s :: _ => starts_break s | _ => false end.
(* the compensation is exact: whatever the content, the parser's drop removes the added line feed and nothing else *)
Lemma first_break_kept s : parser_drop ((if starts_break s then nl else []) ++ s) = s.
Proof.
  destruct s as [|c s]; [reflexivity|]. unfold starts_break.
  destruct (beq c x0a) eqn:Ea; [reflexivity|]. destruct (beq c x0d) eqn:Ed; [reflexivity|].
  cbn [orb app parser_drop]. unfold parser_drop. rewrite Ed, Ea. reflexivity.
Qed.
Fixpoint pretty (fuel : nat) (ind : nat) (n : node) : bytes :=
  match fuel with O => [] | S f =>
  match n with
  | Text s => if wsonly s then [] else spaces ind ++ escape s
  | Elem t a k =>
      if is_verbatim t then
        spaces ind ++ open_tag t a ++ (if starts_nl k then nl else []) ++ flat_map ser k ++ close_tag t ++ nl
      else
      match k with
      | [] => spaces ind ++ open_tag t a ++ close_tag t ++ nl
      | [Text s] => spaces ind ++ open_tag t a ++ escape s ++ close_tag t ++ nl
      | _ => spaces ind ++ open_tag t a ++ nl ++ pr_kids (pretty f) (ind + 2) k ++ spaces ind ++ close_tag t ++ nl
      end
  end end.

(* the tree the parser will see, whitespace aside *)
Fixpoint strip (fuel : nat) (n : node) : list node :=
  match fuel with O => [] | S f =>
  match n with
  | Text s => if wsonly s then [] else [Text s]
  | Elem t a k => [Elem t a (flat_map (strip f) k)]
  end end.

Fixpoint depth (n : node) : nat :=
  match n with Text _ => 1 | Elem _ _ k => S (fold_right (fun x a => Nat.max (depth x) a) 0 k) end.
Lemma depth_in x k : In x k -> depth x <= fold_right (fun x a => Nat.max (depth x) a) 0 k.
Proof. induction k as [|y r IH]; cbn; [tauto|]. intros [->|H]; [lia|]. specialize (IH H). lia. Qed.

(* pads can be absorbed on the left, and padded forests concatenate *)
Lemma PS_pad_l n o p : PS n o -> wsonly p = true -> PS n (p ++ o).
Proof.
  intros H Hp. destruct H as [s p1 p2 H1 H2 | t a k body p1 p2 p3 H1 H2 H3 Hb].
  - rewrite app_assoc. constructor; [now apply ws_app|assumption].
  - rewrite app_assoc. constructor; try assumption. now apply ws_app.
Qed.
Lemma PSF_pad_l k o p : PSF k o -> wsonly p = true -> PSF k (p ++ o).
Proof.
  intros H Hp. destruct H as [q Hq | n r o1 o2 Hn Hr].
  - constructor. now apply ws_app.
  - rewrite app_assoc. constructor; [now apply PS_pad_l|assumption].
Qed.
Lemma PSF_app a o1 : PSF a o1 -> forall b o2, PSF b o2 -> PSF (a ++ b) (o1 ++ o2).
Proof.
  induction 1 as [p Hp | n r oa ob Hn Hr IH]; intros b o2 Hb; cbn [app].
  - now apply PSF_pad_l.
  - rewrite <- app_assoc. constructor; [assumption|]. now apply IH.
Qed.
Lemma PSF_one n o : PS n o -> PSF [n] o.
Proof. intro H. rewrite <- (app_nil_r o). constructor; [assumption|]. now constructor. Qed.

Lemma psf_kids f ind k pad : wsonly pad = true ->
  (forall x, In x k -> PSF (strip f x) (pretty f ind x)) ->
  PSF (flat_map (strip f) k) (pr_kids (pretty f) ind k ++ pad).
Proof.
  intros Hp. induction k as [|x r IH]; intro H; cbn [flat_map pr_kids].
  - now constructor.
  - rewrite <- app_assoc. apply PSF_app; [apply H; left; reflexivity|].
    apply IH. intros y Hy. apply H. now right.
Qed.

(* the plain serialisation is itself a padded serialisation of the stripped forest (all pads empty, a
   white-space-only text node being a pad) *)
Lemma ser_padded : forall f n, depth n <= f -> PSF (strip f n) (ser n).
Proof.
  induction f as [|f IH]; intros n Hd; [destruct n; cbn in Hd; lia|].
  destruct n as [s | t a k]; cbn [strip ser].
  - destruct (wsonly s) eqn:E; [rewrite (escape_ws _ E); now constructor|].
    apply PSF_one. replace (escape s) with ([] ++ escape s ++ []) by (cbn [app]; apply app_nil_r).
    constructor; reflexivity.
  - apply PSF_one. cbn [depth] in Hd.
    replace ([x3c] ++ t ++ ser_attrs a ++ [x3e] ++ flat_map ser k ++ [x3c; x2f] ++ t ++ [x3e])
      with ([] ++ open_tag t a ++ [] ++ (flat_map ser k ++ []) ++ close_tag t ++ [])
      by (unfold open_tag, close_tag; cbn [app]; now rewrite !app_nil_r, <- !app_assoc).
    constructor; try reflexivity.
    assert (Hk : forall x, In x k -> PSF (strip f x) (ser x)).
    { intros x Hx. apply IH. pose proof (depth_in _ _ Hx). lia. }
    clear Hd. induction k as [|x r IHr]; cbn [flat_map]; [now constructor|].
    rewrite <- app_assoc. apply PSF_app; [apply Hk; now left|]. apply IHr. intros y Hy. apply Hk. now right.
Qed.

Theorem pretty_is_padded : forall f ind n, depth n <= f -> PSF (strip f n) (pretty f ind n).
Proof.
  induction f as [|f IH]; intros ind n Hd; [destruct n; cbn in Hd; lia|].
  destruct n as [s | t a k]; cbn [pretty strip].
  - destruct (wsonly s) eqn:E; [constructor; reflexivity|].
    apply PSF_one. rewrite <- (app_nil_r (escape s)). constructor; [apply ws_spaces|reflexivity].
  - apply PSF_one. cbn [depth] in Hd.
    destruct (is_verbatim t).
    { (* pre / textarea: verbatim content *)
      replace (spaces ind ++ open_tag t a ++ (if starts_nl k then nl else []) ++ flat_map ser k ++ close_tag t ++ nl)
        with (spaces ind ++ open_tag t a ++ (if starts_nl k then nl else []) ++ (flat_map ser k ++ []) ++ close_tag t ++ nl)
        by now rewrite app_nil_r.
      constructor; [apply ws_spaces|destruct (starts_nl k); reflexivity|reflexivity|].
      assert (Hk : forall x, In x k -> PSF (strip f x) (ser x)).
      { intros x Hx. apply ser_padded. pose proof (depth_in _ _ Hx). lia. }
      clear Hd. induction k as [|x r IHr]; cbn [flat_map]; [now constructor|].
      rewrite <- app_assoc. apply PSF_app; [apply Hk; now left|]. apply IHr. intros y Hy. apply Hk. now right. }
    assert (Hk : forall x ind', In x k -> PSF (strip f x) (pretty f ind' x)).
    { intros x ind' Hx. apply IH. pose proof (depth_in _ _ Hx). lia. }
    destruct k as [|k0 kr].
    + (* empty element *)
      cbn [flat_map]. replace (spaces ind ++ open_tag t a ++ close_tag t ++ nl)
        with (spaces ind ++ open_tag t a ++ [] ++ [] ++ close_tag t ++ nl) by reflexivity.
      constructor; [apply ws_spaces|reflexivity|reflexivity|]. now constructor.
    + destruct k0 as [s0 | t0 a0 k0]; [destruct kr as [|k1 kr]|].
      * (* a single text child: compact form *)
        cbn [flat_map]. rewrite app_nil_r. destruct f as [|f']; [cbn in Hd; lia|]. cbn [strip].
        destruct (wsonly s0) eqn:E.
        -- rewrite (escape_ws _ E).
           replace (spaces ind ++ open_tag t a ++ s0 ++ close_tag t ++ nl)
             with (spaces ind ++ open_tag t a ++ [] ++ s0 ++ close_tag t ++ nl) by reflexivity.
           constructor; [apply ws_spaces|reflexivity|reflexivity|]. now constructor.
        -- replace (spaces ind ++ open_tag t a ++ escape s0 ++ close_tag t ++ nl)
             with (spaces ind ++ open_tag t a ++ [] ++ (([] ++ escape s0 ++ []) ++ []) ++ close_tag t ++ nl)
             by (cbn [app]; now rewrite !app_nil_r).
           constructor; [apply ws_spaces|reflexivity|reflexivity|].
           constructor; [constructor; reflexivity|constructor; reflexivity].
      * (* text followed by more children: block form *)
        replace (spaces ind ++ open_tag t a ++ nl ++ pr_kids (pretty f) (ind + 2) (Text s0 :: k1 :: kr) ++ spaces ind ++ close_tag t ++ nl)
          with (spaces ind ++ open_tag t a ++ nl ++ (pr_kids (pretty f) (ind + 2) (Text s0 :: k1 :: kr) ++ spaces ind) ++ close_tag t ++ nl)
          by now rewrite <- !app_assoc.
        constructor; [apply ws_spaces|apply ws_nl|apply ws_nl|].
        apply psf_kids; [apply ws_spaces|]. intros x Hx. now apply Hk.
      * (* first child is an element: block form *)
        replace (spaces ind ++ open_tag t a ++ nl ++ pr_kids (pretty f) (ind + 2) (Elem t0 a0 k0 :: kr) ++ spaces ind ++ close_tag t ++ nl)
          with (spaces ind ++ open_tag t a ++ nl ++ (pr_kids (pretty f) (ind + 2) (Elem t0 a0 k0 :: kr) ++ spaces ind) ++ close_tag t ++ nl)
          by now rewrite <- !app_assoc.
        constructor; [apply ws_spaces|apply ws_nl|apply ws_nl|].
        apply psf_kids; [apply ws_spaces|]. intros x Hx. now apply Hk.
Qed.

(* the corollary C02 uses: whatever the indentation, the parser sees the stripped tree *)
Corollary pretty_tokens n ind :
  let d := strip (depth n) n in
  forallb wf d = true -> nf_list nf d = true ->
  norm (tokens (pretty (depth n) ind n)) = norm (flat_map flat d).
Proof. intros d Hw Hn. apply padded_forest; [apply pretty_is_padded; lia|assumption|assumption]. Qed.

