From V Require Import Base.Bytes Base.Val Model.Stack Model.Escape Model.Interp Proofs.EscapeP.

(* find2 on a string that starts with text free of the delimiter byte *)
Lemma find2_skip c pre : forall rest, ~ In c pre -> find2 c c (pre ++ c :: c :: rest) = Some (pre, rest).
Proof.
  induction pre as [|x pre IH]; intros rest Hn.
  - cbn. now rewrite !beq_refl.
  - assert (Hx : beq x c = false) by (apply beq_false; intro E; apply Hn; left; congruence).
    assert (Hp : ~ In c pre) by (intro E; apply Hn; now right).
    specialize (IH rest Hp). destruct pre as [|y pre'].
    + cbn [app] in *. cbn [find2]. rewrite Hx. cbn [andb]. cbn [find2] in IH. rewrite IH. reflexivity.
    + cbn [app] in *. cbn [find2]. rewrite Hx. cbn [andb]. cbn [find2] in IH. rewrite IH. reflexivity.
Qed.
Lemma find2_none c s : ~ In c s -> find2 c c s = None.
Proof.
  induction s as [|x s IH]; intro Hn; [reflexivity|].
  assert (Hx : beq x c = false) by (apply beq_false; intro E; apply Hn; left; congruence).
  assert (Hp : ~ In c s) by (intro E; apply Hn; now right). specialize (IH Hp).
  destruct s as [|y s']; [reflexivity|]. cbn [find2]. rewrite Hx. cbn [andb]. cbn [find2] in IH. now rewrite IH.
Qed.

(* one mustache between brace-free static neighbours: the output is the neighbours with the printed
   value in between - the value's bytes are copied, never scanned for mustaches, never looked up *)
Theorem interp_one_value fuel raw s pre e post :
  ~ In x7b pre -> ~ In x7d e -> ~ In x7b post -> simple_expr (trim_sp e) = true ->
  interp_go (S (S fuel)) raw s (pre ++ x7b :: x7b :: e ++ x7d :: x7d :: post) =
  Some (pre ++ print_value raw s (trim_sp e) ++ post).
Proof.
  intros Hpre He Hpost Hs. cbn [interp_go]. rewrite (find2_skip x7b pre _ Hpre).
  rewrite (find2_skip x7d e post He). rewrite Hs. rewrite (find2_none x7b post Hpost). reflexivity.
Qed.
