From V Require Import Base.Bytes Model.Escape Proofs.EscapeP Model.Tok Proofs.TokP.
Definition esc_attrs (a : attrs) : attrs := map (fun kv => (fst kv, escape (snd kv))) a.

(* exact outputs of the open and end tag segments *)
Lemma open_run' txt t a : wf_tag t = true -> forallb (fun kv => wf_key (fst kv)) a = true ->
  run (Data txt) ([x3c] ++ t ++ ser_attrs a ++ [x3e]) = (Data [], emit_text txt ++ [TStart t (esc_attrs a)]).
Proof.
  intros Ht Ha. destruct t as [|c t]; [discriminate|]. cbn [wf_tag] in Ht.
  apply andb_true_iff in Ht. destruct Ht as [Hc Ht].
  cbn [app]. stp. red_tests. stp. rewrite Hc. cbv beta iota.
  rewrite run_app, tagname_run by assumption. cbv beta iota. cbn [app].
  destruct (attrs_run false (c :: t) a (TagName false (c :: t)) []) as [s' [Hr Hs']];
    [left; auto|assumption|].
  rewrite run_app, Hr. cbv beta iota. rewrite (close_run _ _ _ _ Hs'). cbn [app emit_tag].
  rewrite ?app_nil_r. reflexivity.
Qed.
Lemma end_run' txt t : wf_tag t = true ->
  run (Data txt) ([x3c; x2f] ++ t ++ [x3e]) = (Data [], emit_text txt ++ [TEnd t]).
Proof.
  intros Ht. destruct t as [|c t]; [discriminate|]. cbn [wf_tag] in Ht.
  apply andb_true_iff in Ht. destruct Ht as [Hc Ht].
  cbn [app]. stp. red_tests. stp.
  assert (Hna : is_alpha x2f = false) by reflexivity. rewrite Hna. red_tests.
  stp. rewrite Hc. cbv beta iota.
  rewrite run_app, tagname_run by assumption. cbv beta iota. stp. red_tests. cbn [run emit_tag].
  rewrite ?app_nil_r. reflexivity.
Qed.

(* expected token stream *)
Fixpoint flat (n : node) : list token :=
  match n with
  | Text s => [TText (escape s)]
  | Elem t a k => TStart t (esc_attrs a) :: flat_map flat k ++ [TEnd t]
  end.

(* normal form *)
Definition is_text (n : node) : bool := match n with Text _ => true | _ => false end.
Definition starts_text (l : list node) : bool := match l with n :: _ => is_text n | [] => false end.
Section NfList.
  Variable nfn : node -> bool.
  Fixpoint nf_list (l : list node) : bool :=
    match l with
    | [] => true
    | n :: r => nfn n && negb (is_text n && starts_text r) && nf_list r
    end.
End NfList.
Fixpoint nf (n : node) : bool :=
  match n with
  | Text s => match s with [] => false | _ => true end
  | Elem _ _ k => nf_list nf k
  end.

Lemma escape_nonempty s : s <> [] -> escape s <> [].
Proof. destruct s as [|c r]; [congruence|]. intros _. rewrite escape_cons. pose proof (esc1_len c). destruct (esc1 c); cbn in *; [lia|discriminate]. Qed.
Lemma emit_text_nonempty t : t <> [] -> emit_text t = [TText t].
Proof. destruct t; [congruence|reflexivity]. Qed.

Definition okn (n : node) : Prop := forall txt, wf n = true -> nf n = true -> (txt = [] \/ is_text n = false) ->
  exists txt' out, run (Data txt) (ser n) = (Data txt', out) /\ out ++ emit_text txt' = emit_text txt ++ flat n /\
                   (is_text n = false -> txt' = []).

Lemma forest_run k : Forall okn k -> forall txt, forallb wf k = true -> nf_list nf k = true ->
  (txt = [] \/ starts_text k = false) ->
  exists txt' out, run (Data txt) (flat_map ser k) = (Data txt', out) /\
                   out ++ emit_text txt' = emit_text txt ++ flat_map flat k.
Proof.
  induction 1 as [|n k Hn _ IH]; intros txt Hw Hnf Htx.
  - exists txt, []. cbn. rewrite app_nil_r. auto.
  - cbn [forallb] in Hw. apply andb_true_iff in Hw. destruct Hw as [Hwn Hwk].
    cbn [nf_list] in Hnf. apply andb_true_iff in Hnf. destruct Hnf as [Hnf Hnfk].
    apply andb_true_iff in Hnf. destruct Hnf as [Hnfn Hadj]. apply negb_true_iff in Hadj.
    cbn [flat_map]. rewrite run_app.
    destruct (Hn txt Hwn Hnfn) as (t1 & o1 & Hr1 & He1 & Hz1); [destruct Htx; [left|right]; auto|].
    rewrite Hr1.
    assert (Hnext : t1 = [] \/ starts_text k = false).
    { destruct (is_text n) eqn:Ei; [right; exact Hadj|left; auto]. }
    destruct (IH t1 Hwk Hnfk Hnext) as (t2 & o2 & Hr2 & He2). rewrite Hr2.
    exists t2, (o1 ++ o2). split; [reflexivity|].
    rewrite <- app_assoc, He2, app_assoc, He1, <- app_assoc. reflexivity.
Qed.

Theorem node_run : forall n, okn n.
Proof.
  induction n as [s | t a k IH] using node_ind'; intros txt Hw Hnf Htx.
  - cbn [ser]. rewrite escape_text_inert. destruct Htx as [->|Htx]; [|discriminate].
    exists (escape s), []. split; [reflexivity|]. split; [|discriminate]. cbn [app flat emit_text].
    apply emit_text_nonempty, escape_nonempty. destruct s; [discriminate|congruence].
  - cbn [wf] in Hw. apply andb_true_iff in Hw. destruct Hw as [Hw Hk].
    apply andb_true_iff in Hw. destruct Hw as [Ht Ha]. cbn [nf] in Hnf.
    cbn [ser].
    replace ([x3c] ++ t ++ ser_attrs a ++ [x3e] ++ flat_map ser k ++ [x3c; x2f] ++ t ++ [x3e])
      with (([x3c] ++ t ++ ser_attrs a ++ [x3e]) ++ flat_map ser k ++ ([x3c; x2f] ++ t ++ [x3e]))
      by (rewrite <- !app_assoc; reflexivity).
    rewrite run_app, (open_run' txt t a Ht Ha), run_app.
    destruct (forest_run k IH [] Hk Hnf (or_introl eq_refl)) as (t2 & o2 & Hr2 & He2).
    rewrite Hr2, (end_run' t2 t Ht).
    exists [], ((emit_text txt ++ [TStart t (esc_attrs a)]) ++ o2 ++ emit_text t2 ++ [TEnd t]).
    split; [reflexivity|]. split; [|reflexivity].
    cbn [emit_text flat]. rewrite app_nil_r. rewrite <- !app_assoc. f_equal. cbn [app]. f_equal.
    rewrite app_assoc, He2. reflexivity.
Qed.

(* the whole token stream of a forest, final text flushed *)
Definition tokens (inp : bytes) : list token :=
  let '(s, out) := run (Data []) inp in out ++ match s with Data t => emit_text t | _ => [] end.
Theorem tokens_flat k : forallb wf k = true -> nf_list nf k = true ->
  tokens (flat_map ser k) = flat_map flat k.
Proof.
  intros Hw Hn. unfold tokens.
  assert (Hall : Forall okn k) by (apply Forall_forall; intros n _; apply node_run).
  destruct (forest_run k Hall [] Hw Hn (or_introl eq_refl)) as (t2 & o2 & Hr2 & He2).
  rewrite Hr2. exact He2.
Qed.

(* ---- the tree builder ---- *)
Definition dec (raw : bytes) : bytes := unescape raw.
Lemma dec_escape s : dec (escape s) = s.
Proof. apply unescape_escape. Qed.
Definition dec_attrs (a : attrs) : attrs := map (fun kv => (fst kv, dec (snd kv))) a.
Lemma dec_esc_attrs a : dec_attrs (esc_attrs a) = a.
Proof.
  unfold dec_attrs, esc_attrs. rewrite map_map. rewrite <- (map_id a) at 2. apply map_ext.
  intros [k v]. cbn [fst snd]. now rewrite dec_escape.
Qed.
Fixpoint beqb (a b : bytes) : bool :=
  match a, b with [], [] => true | x :: a', y :: b' => beq x y && beqb a' b' | _, _ => false end.
Lemma beqb_refl a : beqb a a = true.
Proof. induction a; cbn; [reflexivity|]. now rewrite beq_refl. Qed.

Definition frame := (bytes * attrs * list node)%type.       (* open element, its attrs, reversed elder siblings *)
Fixpoint build (toks : list token) (stack : list frame) (cur : list node) : option (list node) :=
  match toks with
  | [] => match stack with [] => Some (rev cur) | _ => None end
  | TText raw :: r => build r stack (Text (dec raw) :: cur)
  | TStart t a :: r => build r ((t, dec_attrs a, cur) :: stack) []
  | TEnd t :: r =>
      match stack with
      | (t', a, parent) :: st => if beqb t t' then build r st (Elem t' a (rev cur) :: parent) else None
      | [] => None
      end
  end.

Lemma build_forest k : Forall (fun n => forall rest st cur, build (flat n ++ rest) st cur = build rest st (n :: cur)) k ->
  forall rest st cur, build (flat_map flat k ++ rest) st cur = build rest st (rev k ++ cur).
Proof.
  induction 1 as [|n k Hn _ IH]; intros rest st cur; cbn [flat_map rev app]; [reflexivity|].
  rewrite <- app_assoc, Hn, IH. now rewrite <- app_assoc.
Qed.
Lemma build_node : forall n rest st cur, build (flat n ++ rest) st cur = build rest st (n :: cur).
Proof.
  induction n as [s | t a k IH] using node_ind'; intros rest st cur.
  - cbn. now rewrite dec_escape.
  - cbn [flat app build]. rewrite <- app_assoc, (build_forest k IH). cbn [app build].
    rewrite beqb_refl, app_nil_r, rev_involutive, dec_esc_attrs. reflexivity.
Qed.

Theorem ser_roundtrip k : forallb wf k = true -> nf_list nf k = true ->
  build (tokens (flat_map ser k)) [] [] = Some k.
Proof.
  intros Hw Hn. rewrite tokens_flat by assumption.
  rewrite <- (app_nil_r (flat_map flat k)), build_forest.
  - cbn. now rewrite app_nil_r, rev_involutive.
  - apply Forall_forall. intros n _. apply build_node.
Qed.


Example hostile_roundtrip :
  let d := [Elem (bs "a") [(bs "title", bs """><script>&amp;")] [Text (bs "1 < 2 && x"); Elem (bs "b") [] []; Text (bs "</a>")]] in
  build (tokens (flat_map ser d)) [] [] = Some d.
Proof. vm_compute. reflexivity. Qed.
