From Coq Require Import List Bool Arith Lia.
Import ListNotations.
From V Require Import Base.Bytes Model.Hole.

(* ---- the logical relation ---- *)
Section Param.
Variable s : bytes.
Let b0 := truthy_str s.

(* every hole in the data carries the truthiness of s *)
Fixpoint cons_v (v : val) : bool :=
  match v with VHole b => Bool.eqb b b0 | VList l => forallb cons_v l | _ => true end.
Definition cons_e (r : env) : bool := forallb (fun kv => cons_v (snd kv)) r.

Section ValInd.
  Variable P : val -> Prop.
  Hypotheses (H1 : P VNil) (H2 : forall b, P (VBool b)) (H3 : forall x, P (VStr x))
             (H4 : forall l, Forall P l -> P (VList l)) (H5 : forall b, P (VHole b)).
  Fixpoint val_ind' (v : val) : P v :=
    match v with
    | VNil => H1 | VBool b => H2 b | VStr x => H3 x | VHole b => H5 b
    | VList l => H4 l ((fix go (l : list val) : Forall P l :=
                          match l with [] => Forall_nil _ | x :: t => Forall_cons _ (val_ind' x) (go t) end) l)
    end.
End ValInd.

Lemma lookup_senv r x : lookup (senv s r) x = option_map (subst s) (lookup r x).
Proof. induction r as [|[k v] t IH]; cbn; [reflexivity|]. destruct (Nat.eqb k x); auto. Qed.
Lemma lookup_cons r x v : cons_e r = true -> lookup r x = Some v -> cons_v v = true.
Proof.
  induction r as [|[k w] t IH]; cbn; [discriminate|]. intro H. apply andb_true_iff in H. destruct H.
  destruct (Nat.eqb k x); [intros [= <-]; assumption|auto].
Qed.
Lemma truthy_subst v : cons_v v = true -> truthy (subst s v) = truthy v.
Proof. destruct v; cbn; auto. intro H. apply Bool.eqb_prop in H. now subst. Qed.
Lemma sprint_subst v : fill [] (sprint (subst s v)) = fill s (sprint v).
Proof.
  induction v as [| b | x | l IH | b] using val_ind'; try reflexivity.
  - destruct b; reflexivity.
  - cbn [subst sprint]. unfold fill in *. rewrite !flat_map_app. f_equal. f_equal.
    induction IH as [|v l Hv _ IHl]; cbn [map flat_map]; [reflexivity|].
    rewrite !flat_map_app, Hv, IHl. reflexivity.
Qed.
Lemma interp_subst r v : fill [] (interp (senv s r) v) = fill s (interp r v).
Proof.
  unfold interp. induction v as [|g v IH]; cbn; [reflexivity|].
  rewrite !fill_app, IH. f_equal. destruct g; [reflexivity|].
  rewrite lookup_senv. destruct (lookup r x); cbn; [apply sprint_subst|reflexivity].
Qed.

Definition rel (dh dc : list onode) : Prop := map oflat dc = map (ofill s) dh.
Lemma rel_app a b a' b' : rel a a' -> rel b b' -> rel (a ++ b) (a' ++ b').
Proof. unfold rel. intros H1 H2. now rewrite !map_app, H1, H2. Qed.

Lemma attr_subst r a : cons_e r = true ->
  map (fun kv : bytes * hstr => (fst kv, [@inl bytes unit (fill [] (snd kv))])) (eval_attr (senv s r) a)
  = map (fun kv : bytes * hstr => (fst kv, [@inl bytes unit (fill s (snd kv))])) (eval_attr r a).
Proof.
  intro Hr. destruct a as [k v | k x]; cbn.
  - now rewrite interp_subst.
  - rewrite lookup_senv. destruct (lookup r x) eqn:E; cbn; [|reflexivity].
    rewrite truthy_subst by (eapply lookup_cons; eauto).
    destruct (truthy v); cbn; [|reflexivity]. now rewrite sprint_subst.
Qed.

Definition ev_ok (ev : env -> tnode -> res (list onode)) : Prop :=
  forall r t d, cons_e r = true -> ev r t = Ok d -> exists d', ev (senv s r) t = Ok d' /\ rel d d'.

Lemma evals_ok ev : ev_ok ev -> forall ts r d, cons_e r = true -> evals_with ev r ts = Ok d ->
  exists d', evals_with ev (senv s r) ts = Ok d' /\ rel d d'.
Proof.
  intros Hev ts. induction ts as [|t ts IH]; intros r d Hr H; cbn in *.
  - injection H as <-. exists []. split; reflexivity.
  - destruct (ev r t) as [a| | |] eqn:Ea; try discriminate. cbn in H.
    destruct (evals_with ev r ts) as [b| | |] eqn:Eb; try discriminate. cbn in H. injection H as <-.
    destruct (Hev _ _ _ Hr Ea) as [a' [Ha' Ra]]. destruct (IH _ _ Hr Eb) as [b' [Hb' Rb]].
    rewrite Ha'. cbn. rewrite Hb'. cbn. eexists. split; [reflexivity|]. now apply rel_app.
Qed.
Lemma loop_ok ev : ev_ok ev -> forall v body items r d, cons_e r = true -> forallb cons_v items = true ->
  loop_with ev v r body items = Ok d ->
  exists d', loop_with ev v (senv s r) body (map (subst s) items) = Ok d' /\ rel d d'.
Proof.
  intros Hev v body items. induction items as [|it rest IH]; intros r d Hr Hi H; cbn in *.
  - injection H as <-. exists []. split; reflexivity.
  - apply andb_true_iff in Hi. destruct Hi as [Hit Hrest].
    destruct (evals_with ev ((v, it) :: r) body) as [a| | |] eqn:Ea; try discriminate. cbn in H.
    destruct (loop_with ev v r body rest) as [b| | |] eqn:Eb; try discriminate. cbn in H. injection H as <-.
    destruct (evals_ok ev Hev body ((v, it) :: r) a) as [a' [Ha' Ra]]; [cbn; now rewrite Hit|assumption|].
    destruct (IH r b Hr Hrest Eb) as [b' [Hb' Rb]].
    change (senv s ((v, it) :: r)) with ((v, subst s it) :: senv s r) in Ha'.
    cbn [loop_with map]. rewrite Ha'. cbn [bind]. rewrite Hb'. cbn [bind]. eexists. split; [reflexivity|]. now apply rel_app.
Qed.

Theorem eval_hole_param : forall fuel, ev_ok (eval fuel).
Proof.
  induction fuel as [|f IH]; intros r t d Hr H; [discriminate|].
  destruct t as [v | tag a kids | tag x | x th el | x lit th | v coll body]; cbn [eval] in *.
  - injection H as <-. eexists. split; [reflexivity|]. unfold rel. cbn. now rewrite interp_subst.
  - destruct (evals_with (eval f) r kids) as [ks| | |] eqn:Ek; try discriminate. cbn in H. injection H as <-.
    destruct (evals_ok _ IH _ _ _ Hr Ek) as [ks' [Hk' Rk]]. rewrite Hk'. cbn.
    eexists. split; [reflexivity|]. unfold rel in *. cbn. f_equal. f_equal.
    + clear -Hr. induction a as [|x a IHa]; cbn [flat_map]; [reflexivity|].
      rewrite !map_app, IHa. f_equal. now apply attr_subst.
    + exact Rk.
  - injection H as <-. eexists. split; [reflexivity|]. unfold rel. cbn. rewrite lookup_senv.
    destruct (lookup r x); cbn; [now rewrite sprint_subst|reflexivity].
  - rewrite lookup_senv. destruct (lookup r x) as [w|] eqn:E; cbn.
    + rewrite truthy_subst by (eapply lookup_cons; eauto).
      destruct (truthy w); eapply evals_ok; eauto.
    + eapply evals_ok; eauto.
  - rewrite lookup_senv. destruct (lookup r x) as [w|] eqn:E; cbn.
    + destruct w; cbn; try (injection H as <-; exists []; split; reflexivity); try discriminate.
      destruct (bytes_eqb s0 lit); [eapply evals_ok; eauto|].
      injection H as <-. exists []. split; reflexivity.
    + injection H as <-. exists []. split; reflexivity.
  - rewrite lookup_senv. destruct (lookup r coll) as [w|] eqn:E; cbn.
    + destruct w; cbn; try (injection H as <-; exists []; split; reflexivity); try discriminate.
      eapply loop_ok; eauto. apply (lookup_cons _ _ _ Hr E).
    + injection H as <-. exists []. split; reflexivity.
Qed.
End Param.


(* non-vacuity: a value forwarded through a loop into text, an attribute and v-text
   is inert; the same value used in a comparison is not (the hole run reports it) *)
Definition t_ok : tnode :=
  TFor 1 0 [TElem [x61] [ABound [x74] 1; AStatic [x63] [Lit [x78]; Var 1]] [TText [Lit [x3a]; Var 1]; TVText [x70] 1]].
Example inert_case : exists d, eval 5 [(0, VList [VHole true; VStr [x7a]])] t_ok = Ok d.
Proof. vm_compute. eexists. reflexivity. Qed.
Example inspected_case : eval 5 [(1, VHole true)] (TEq 1 [x61] [TText [Lit [x61]]]) = ErrInspect.
Proof. reflexivity. Qed.
