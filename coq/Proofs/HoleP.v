From Coq Require Import List Bool Arith Lia.
Import ListNotations.
From V Require Import Base.Bytes Model.Hole.

(* ---- the logical relation ---- *)
Section Param.
Variable s : bytes.
Let b0 := truthy_str s.

(* every hole in the data carries the truthiness of s *)
Definition cons_c1 (c : bytes + bool) : bool := match c with inl _ => true | inr b => Bool.eqb b b0 end.
Definition cons_h (h : hstr) : bool := forallb cons_c1 h.
Fixpoint cons_v (v : val) : bool :=
  match v with VHole b => Bool.eqb b b0 | VHStr h => cons_h h | VList l => forallb cons_v l | _ => true end.
Definition cons_e (r : env) : bool := forallb (fun kv => cons_v (snd kv)) r.
Fixpoint cons_c (c : clo) : bool :=
  match c with CNone => true | CSome r _ o => cons_e r && cons_c o end.
Fixpoint sclo (c : clo) : clo :=
  match c with CNone => CNone | CSome r ts o => CSome (senv s r) ts (sclo o) end.

Section ValInd.
  Variable P : val -> Prop.
  Hypotheses (H1 : P VNil) (H2 : forall b, P (VBool b)) (H3 : forall x, P (VStr x))
             (H4 : forall l, Forall P l -> P (VList l)) (H5 : forall b, P (VHole b)) (H6 : forall h, P (VHStr h))
             (H7 : forall n, P (VNum n)).
  Fixpoint val_ind' (v : val) : P v :=
    match v with
    | VNil => H1 | VBool b => H2 b | VStr x => H3 x | VHole b => H5 b | VHStr h => H6 h | VNum n => H7 n
    | VList l => H4 l ((fix go (l : list val) : Forall P l :=
                          match l with [] => Forall_nil _ | x :: t => Forall_cons _ (val_ind' x) (go t) end) l)
    end.
End ValInd.

Lemma lookup_senv r x : lookup (senv s r) x = option_map (subst s) (lookup r x).
Proof. induction r as [|[k v] t IH]; cbn; [reflexivity|]. destruct (Nat.eqb k x); auto. Qed.
Lemma lookup_cons r x v : cons_e r = true -> lookup r x = Some v -> cons_v v = true.
Proof.
  induction r as [|[k w] t IH]; cbn; [discriminate|]. intro H. apply andb_true_iff in H. destruct H.
  destruct (Nat.eqb k x); [intros [= <-]; assumption|auto].
Qed.

Lemma fill_lit h t : forallb is_lit h = true -> fill t h = fill [] h.
Proof.
  unfold fill. induction h as [|c h IH]; cbn; [reflexivity|]. intro H. apply andb_true_iff in H. destruct H as [Hc Hh].
  rewrite IH by assumption. destruct c; [reflexivity|discriminate].
Qed.

(* deciding truthiness without looking into a hole gives the answer the concrete value gives *)
Lemma truthy_subst v b : cons_v v = true -> truthy v = Some b -> truthy (subst s v) = Some b.
Proof.
  destruct v as [| b' | x | l | b' | h | n]; cbn [truthy subst cons_v]; auto.
  - intros H [= <-]. apply Bool.eqb_prop in H. now subst.
  - intro Hc. destruct (forallb is_lit h) eqn:El.
    + intros [= <-]. now rewrite (fill_lit h s El).
    + destruct h as [|[x|b'] [|c2 h2]]; try discriminate. intros [= <-].
      cbn in Hc. rewrite andb_true_r in Hc. apply Bool.eqb_prop in Hc. subst b'.
      unfold fill. cbn. now rewrite app_nil_r.
Qed.
Lemma truthy_r_subst v b : cons_v v = true -> truthy_r v = Ok b -> truthy_r (subst s v) = Ok b.
Proof.
  unfold truthy_r. intros Hc H. destruct (truthy v) as [b'|] eqn:E; [|discriminate]. injection H as <-.
  now rewrite (truthy_subst v b' Hc E).
Qed.

Lemma fill_fill h : fill [] [@inl bytes bool (fill s h)] = fill s h.
Proof. unfold fill. cbn. now rewrite app_nil_r. Qed.
Lemma fill_cons_lit t b h : fill t (@inl bytes bool b :: h) = b ++ fill t h.
Proof. reflexivity. Qed.
Lemma sprint_subst v : fill [] (sprint (subst s v)) = fill s (sprint v).
Proof.
  induction v as [| b | x | l IH | b | h | n] using val_ind'; try reflexivity.
  - destruct b; reflexivity.
  - cbn [subst sprint]. rewrite !fill_app. f_equal. f_equal.
    assert (G : fill [] (flat_map (fun x => inl sp :: sprint x) (map (subst s) l))
                = fill s (flat_map (fun x => inl sp :: sprint x) l)).
    { induction IH as [|v l Hv _ IHl]; cbn [map flat_map app]; [reflexivity|].
      rewrite !fill_cons_lit, !fill_app, Hv, IHl. reflexivity. }
    destruct l as [|v l]; [reflexivity|]. cbn [map flat_map tl app] in *.
    rewrite !fill_cons_lit in G. now apply app_inv_head in G.
  - cbn [subst sprint]. apply fill_fill.
Qed.
Lemma interp_subst r v : fill [] (interp (senv s r) v) = fill s (interp r v).
Proof.
  unfold interp. induction v as [|g v IH]; cbn; [reflexivity|].
  rewrite !fill_app, IH. f_equal. destruct g; [reflexivity|].
  rewrite lookup_senv. destruct (lookup r x); cbn; [apply sprint_subst|reflexivity].
Qed.

Definition rel (dh dc : list onode) : Prop := map oflat dc = map (ofill s) dh.
Lemma rel_app a b a' b' : rel a a' -> rel b b' -> rel (a ++ b) (a' ++ b').
Proof. unfold rel. intros H1 H2. now rewrite !map_app, H1, H2. Qed.
Lemma rel_nil : rel [] [].
Proof. reflexivity. Qed.

Definition arel (a a' : list (bytes * hstr)) : Prop :=
  map (fun kv : bytes * hstr => (fst kv, [@inl bytes bool (fill [] (snd kv))])) a'
  = map (fun kv : bytes * hstr => (fst kv, [@inl bytes bool (fill s (snd kv))])) a.

Lemma attr_subst r a x : cons_e r = true -> eval_attr r a = Ok x ->
  exists x', eval_attr (senv s r) a = Ok x' /\ arel x x'.
Proof.
  intros Hr H. destruct a as [k v | k y]; cbn in *.
  - injection H as <-. eexists. split; [reflexivity|]. unfold arel. cbn. now rewrite interp_subst.
  - rewrite lookup_senv. destruct (lookup r y) as [w|] eqn:E; cbn in *.
    + destruct (truthy_r w) as [b| | |] eqn:Et; try discriminate. cbn in H. injection H as <-.
      rewrite (truthy_r_subst w b (lookup_cons _ _ _ Hr E) Et). cbn.
      eexists. split; [reflexivity|]. unfold arel. destruct b; cbn; [now rewrite sprint_subst|reflexivity].
    + injection H as <-. eexists. split; reflexivity.
Qed.
Lemma attrs_subst r l x : cons_e r = true -> eval_attrs r l = Ok x ->
  exists x', eval_attrs (senv s r) l = Ok x' /\ arel x x'.
Proof.
  intro Hr. revert x. induction l as [|a l IH]; intros x H; cbn in *.
  - injection H as <-. exists []. split; reflexivity.
  - destruct (eval_attr r a) as [u| | |] eqn:Ea; try discriminate. cbn in H.
    destruct (eval_attrs r l) as [w| | |] eqn:El; try discriminate. cbn in H. injection H as <-.
    destruct (attr_subst _ _ _ Hr Ea) as [u' [Hu Ru]]. destruct (IH _ eq_refl) as [w' [Hw Rw]].
    rewrite Hu. cbn. rewrite Hw. cbn. eexists. split; [reflexivity|].
    unfold arel in *. now rewrite !map_app, Ru, Rw.
Qed.

(* props: the environment handed to a component is consistent, and substitution commutes with building it *)
Lemma forallb_tl {A} (f : A -> bool) l : forallb f l = true -> forallb f (tl l) = true.
Proof. destruct l; cbn; [auto|]. intro H. apply andb_true_iff in H. tauto. Qed.
Lemma cons_sprint v : cons_v v = true -> cons_h (sprint v) = true.
Proof.
  induction v as [| b | x | l IH | b | h | n] using val_ind'; cbn [sprint cons_v]; auto.
  - destruct b; reflexivity.
  - intro H. unfold cons_h. rewrite !forallb_app. cbn [forallb cons_c1 andb]. rewrite andb_true_r.
    apply forallb_tl.
    induction IH as [|v l Hv _ IHl]; cbn [flat_map forallb]; [reflexivity|].
    cbn [forallb] in H. apply andb_true_iff in H. destruct H as [H1 H2].
    cbn [app forallb cons_c1 andb]. rewrite forallb_app, (IHl H2). unfold cons_h in Hv. rewrite (Hv H1). reflexivity.
  - intro H. cbn. now rewrite H.
Qed.
Lemma cons_interp r v : cons_e r = true -> cons_h (interp r v) = true.
Proof.
  intro Hr. unfold interp, cons_h. induction v as [|g v IH]; cbn; [reflexivity|].
  rewrite forallb_app, IH, andb_true_r. destruct g; [reflexivity|].
  destruct (lookup r x) eqn:E; [|reflexivity]. apply cons_sprint. eapply lookup_cons; eauto.
Qed.
Lemma lit_sprint_subst v : forallb is_lit (sprint (subst s v)) = true.
Proof.
  induction v as [| b | x | l IH | b | h | n] using val_ind'; try reflexivity.
  - destruct b; reflexivity.
  - cbn [subst sprint]. rewrite !forallb_app. cbn [forallb is_lit andb]. rewrite andb_true_r.
    apply forallb_tl.
    induction IH as [|v l Hv _ IHl]; cbn [map flat_map forallb]; [reflexivity|].
    cbn [app forallb is_lit andb]. rewrite forallb_app, Hv, IHl. reflexivity.
Qed.
Lemma lit_interp_senv r v : forallb is_lit (interp (senv s r) v) = true.
Proof.
  unfold interp. induction v as [|g v IH]; cbn; [reflexivity|]. rewrite forallb_app, IH, andb_true_r.
  destruct g; [reflexivity|]. rewrite lookup_senv. destruct (lookup r x); cbn; [apply lit_sprint_subst|reflexivity].
Qed.
Lemma cons_mk_str h : cons_h h = true -> cons_v (mk_str h) = true.
Proof. unfold mk_str. destruct (forallb is_lit h); cbn; auto. Qed.
Lemma subst_mk_str r v : subst s (mk_str (interp r v)) = mk_str (interp (senv s r) v).
Proof.
  unfold mk_str at 2. rewrite lit_interp_senv, interp_subst. unfold mk_str.
  destruct (forallb is_lit (interp r v)) eqn:E; cbn [subst]; [|reflexivity].
  now rewrite (fill_lit _ s E).
Qed.
Lemma cons_e_app a b : cons_e (a ++ b) = cons_e a && cons_e b.
Proof. apply forallb_app. Qed.
Lemma senv_app a b : senv s (a ++ b) = senv s a ++ senv s b.
Proof. apply map_app. Qed.
Lemma prop_ok r p e : cons_e r = true -> eval_prop r p = Ok e ->
  cons_e e = true /\ eval_prop (senv s r) p = Ok (senv s e).
Proof.
  intros Hr H. destruct p as [k v | k x]; cbn [eval_prop] in *.
  - injection H as <-. split.
    + cbn. rewrite andb_true_r. apply cons_mk_str. now apply cons_interp.
    + cbn. now rewrite subst_mk_str.
  - rewrite lookup_senv. destruct (lookup r x) as [w|] eqn:E; cbn [option_map].
    + destruct (truthy_r w) as [b| | |] eqn:Et; try discriminate. cbn [bind] in H. injection H as <-.
      pose proof (lookup_cons _ _ _ Hr E) as Hw.
      rewrite (truthy_r_subst w b Hw Et). cbn [bind]. destruct b; cbn; [now rewrite Hw|]; split; reflexivity.
    + injection H as <-. split; reflexivity.
Qed.
Lemma props_ok r p e : cons_e r = true -> eval_props r p = Ok e ->
  cons_e e = true /\ eval_props (senv s r) p = Ok (senv s e).
Proof.
  intro Hr. revert e. induction p as [|a p IH]; intros e H; cbn [eval_props] in *.
  - injection H as <-. split; reflexivity.
  - destruct (eval_prop r a) as [x| | |] eqn:Ea; try discriminate. cbn [bind] in H.
    destruct (eval_props r p) as [y| | |] eqn:Ep; try discriminate. cbn [bind] in H. injection H as <-.
    destruct (prop_ok _ _ _ Hr Ea) as [Cx Hx]. destruct (IH _ eq_refl) as [Cy Hy].
    rewrite Hx. cbn [bind]. rewrite Hy. cbn [bind]. rewrite cons_e_app, Cx, Cy, senv_app. split; reflexivity.
Qed.

Definition ev_ok (ev : clo -> env -> tnode -> res (list onode)) : Prop :=
  forall c r t d, cons_c c = true -> cons_e r = true -> ev c r t = Ok d ->
  exists d', ev (sclo c) (senv s r) t = Ok d' /\ rel d d'.

Lemma evals_ok ev : ev_ok ev -> forall ts c r d, cons_c c = true -> cons_e r = true -> evals_with ev c r ts = Ok d ->
  exists d', evals_with ev (sclo c) (senv s r) ts = Ok d' /\ rel d d'.
Proof.
  intros Hev ts. induction ts as [|t ts IH]; intros c r d Hc Hr H; cbn in *.
  - injection H as <-. exists []. split; reflexivity.
  - destruct (ev c r t) as [a| | |] eqn:Ea; try discriminate. cbn in H.
    destruct (evals_with ev c r ts) as [b| | |] eqn:Eb; try discriminate. cbn in H. injection H as <-.
    destruct (Hev _ _ _ _ Hc Hr Ea) as [a' [Ha' Ra]]. destruct (IH _ _ _ Hc Hr Eb) as [b' [Hb' Rb]].
    rewrite Ha'. cbn. rewrite Hb'. cbn. eexists. split; [reflexivity|]. now apply rel_app.
Qed.
Lemma loop_ok ev : ev_ok ev -> forall v body items c r d, cons_c c = true -> cons_e r = true -> forallb cons_v items = true ->
  loop_with ev v c r body items = Ok d ->
  exists d', loop_with ev v (sclo c) (senv s r) body (map (subst s) items) = Ok d' /\ rel d d'.
Proof.
  intros Hev v body items. induction items as [|it rest IH]; intros c r d Hc Hr Hi H; cbn in *.
  - injection H as <-. exists []. split; reflexivity.
  - apply andb_true_iff in Hi. destruct Hi as [Hit Hrest].
    destruct (evals_with ev c ((v, it) :: r) body) as [a| | |] eqn:Ea; try discriminate. cbn in H.
    destruct (loop_with ev v c r body rest) as [b| | |] eqn:Eb; try discriminate. cbn in H. injection H as <-.
    destruct (evals_ok ev Hev body c ((v, it) :: r) a Hc) as [a' [Ha' Ra]]; [cbn; now rewrite Hit|assumption|].
    destruct (IH c r b Hc Hr Hrest Eb) as [b' [Hb' Rb]].
    change (senv s ((v, it) :: r)) with ((v, subst s it) :: senv s r) in Ha'.
    cbn [loop_with map]. rewrite Ha'. cbn [bind]. rewrite Hb'. cbn [bind]. eexists. split; [reflexivity|]. now apply rel_app.
Qed.
Lemma chain_ok ev : ev_ok ev -> forall br el c r d, cons_c c = true -> cons_e r = true ->
  chain_with ev c r br el = Ok d ->
  exists d', chain_with ev (sclo c) (senv s r) br el = Ok d' /\ rel d d'.
Proof.
  intros Hev br el c r d Hc Hr. induction br as [|[x th] rest IH]; cbn [chain_with]; intro H.
  - eapply evals_ok; eauto.
  - rewrite lookup_senv. destruct (lookup r x) as [w|] eqn:E; cbn [option_map]; [|auto].
    destruct (truthy_r w) as [b| | |] eqn:Et; try discriminate. cbn [bind] in H.
    rewrite (truthy_r_subst w b (lookup_cons _ _ _ Hr E) Et). cbn [bind].
    destruct b; [eapply evals_ok; eauto|auto].
Qed.

Lemma loop2_ok ev : ev_ok ev -> forall i v body items k c r d, cons_c c = true -> cons_e r = true -> forallb cons_v items = true ->
  loop2_with ev i v k c r body items = Ok d ->
  exists d', loop2_with ev i v k (sclo c) (senv s r) body (map (subst s) items) = Ok d' /\ rel d d'.
Proof.
  intros Hev i v body items. induction items as [|it rest IH]; intros k c r d Hc Hr Hi H; cbn in *.
  - injection H as <-. exists []. split; reflexivity.
  - apply andb_true_iff in Hi. destruct Hi as [Hit Hrest].
    destruct (evals_with ev c ((v, it) :: (i, VNum k) :: r) body) as [a| | |] eqn:Ea; try discriminate. cbn in H.
    destruct (loop2_with ev i v (S k) c r body rest) as [b| | |] eqn:Eb; try discriminate. cbn in H. injection H as <-.
    destruct (evals_ok ev Hev body c ((v, it) :: (i, VNum k) :: r) a Hc) as [a' [Ha' Ra]]; [cbn; now rewrite Hit|assumption|].
    destruct (IH (S k) c r b Hc Hr Hrest Eb) as [b' [Hb' Rb]].
    change (senv s ((v, it) :: (i, VNum k) :: r)) with ((v, subst s it) :: (i, VNum k) :: senv s r) in Ha'.
    cbn [loop2_with map]. rewrite Ha'. cbn [bind]. rewrite Hb'. cbn [bind]. eexists. split; [reflexivity|]. now apply rel_app.
Qed.

(* front-matter is written in the component file: it holds no data value, hence no hole *)
Fixpoint plain_v (v : val) : bool :=
  match v with VHole _ | VHStr _ => false | VList l => forallb plain_v l | _ => true end.
Definition plain_e (r : env) : bool := forallb (fun kv => plain_v (snd kv)) r.
Definition plain_W (W : list (env * list tnode)) : bool := forallb (fun c => plain_e (fst c)) W.
Lemma plain_subst v : plain_v v = true -> subst s v = v.
Proof.
  induction v as [| b | x | l IH | b | h | n] using val_ind'; cbn; try reflexivity; try discriminate.
  intro H. f_equal. induction IH as [|v l Hv _ IHl]; cbn in *; [reflexivity|].
  apply andb_true_iff in H. destruct H as [H1 H2]. now rewrite (Hv H1), (IHl H2).
Qed.
Lemma plain_cons v : plain_v v = true -> cons_v v = true.
Proof.
  induction v as [| b | x | l IH | b | h | n] using val_ind'; cbn; try reflexivity; try discriminate.
  intro H. induction IH as [|v l Hv _ IHl]; cbn in *; [reflexivity|].
  apply andb_true_iff in H. destruct H as [H1 H2]. now rewrite (Hv H1), (IHl H2).
Qed.
Lemma plain_e_senv r : plain_e r = true -> senv s r = r.
Proof.
  unfold senv. induction r as [|[k v] r IH]; cbn; [reflexivity|]. intro H. apply andb_true_iff in H. destruct H as [H1 H2].
  now rewrite (plain_subst v H1), (IH H2).
Qed.
Lemma plain_e_cons r : plain_e r = true -> cons_e r = true.
Proof.
  unfold cons_e. induction r as [|[k v] r IH]; cbn; [reflexivity|]. intro H. apply andb_true_iff in H. destruct H as [H1 H2].
  now rewrite (plain_cons v H1), (IH H2).
Qed.

Section W.
Variable W : list (env * list tnode).
Hypothesis HW : plain_W W = true.
Theorem eval_hole_param : forall fuel, ev_ok (eval W fuel).
Proof.
  induction fuel as [|f IH]; intros c r t d Hc Hr H; [discriminate|].
  destruct t as [v | tag a kids | tag x | tag x kids | x th el | br el | x lit th | v coll body | i v coll body | fi p content | fb]; cbn [eval] in *.
  - (* text *) injection H as <-. eexists. split; [reflexivity|]. unfold rel. cbn. now rewrite interp_subst.
  - (* element *)
    destruct (eval_attrs r a) as [at'| | |] eqn:Ea; try discriminate. cbn [bind] in H.
    destruct (evals_with (eval W f) c r kids) as [ks| | |] eqn:Ek; try discriminate. cbn [bind] in H. injection H as <-.
    destruct (attrs_subst _ _ _ Hr Ea) as [at2 [Ha2 Ra]].
    destruct (evals_ok _ IH _ _ _ _ Hc Hr Ek) as [ks' [Hk' Rk]]. rewrite Ha2. cbn [bind]. rewrite Hk'. cbn [bind].
    eexists. split; [reflexivity|]. unfold rel in *. cbn. f_equal. f_equal; [exact Ra|exact Rk].
  - (* v-text *) injection H as <-. eexists. split; [reflexivity|]. unfold rel. cbn. rewrite lookup_senv.
    destruct (lookup r x); cbn; [now rewrite sprint_subst|reflexivity].
  - (* v-show *)
    rewrite lookup_senv.
    destruct (match lookup r x with Some w => truthy_r w | None => Ok false end) as [b| | |] eqn:Et; try discriminate.
    cbn [bind] in H.
    destruct (evals_with (eval W f) c r kids) as [ks| | |] eqn:Ek; try discriminate. cbn [bind] in H. injection H as <-.
    destruct (evals_ok _ IH _ _ _ _ Hc Hr Ek) as [ks' [Hk' Rk]].
    assert (Et' : match option_map (subst s) (lookup r x) with Some w => truthy_r w | None => Ok false end = Ok b).
    { destruct (lookup r x) as [w|] eqn:E; cbn [option_map]; [|exact Et].
      exact (truthy_r_subst w b (lookup_cons _ _ _ Hr E) Et). }
    rewrite Et'. cbn [bind]. rewrite Hk'. cbn [bind].
    eexists. split; [reflexivity|]. unfold rel in *. cbn. f_equal. f_equal; [destruct b; reflexivity|exact Rk].
  - (* v-if / v-else *)
    rewrite lookup_senv. destruct (lookup r x) as [w|] eqn:E; cbn [option_map].
    + destruct (truthy_r w) as [b| | |] eqn:Et; try discriminate. cbn [bind] in H.
      rewrite (truthy_r_subst w b (lookup_cons _ _ _ Hr E) Et). cbn [bind].
      destruct b; eapply evals_ok; eauto.
    + eapply evals_ok; eauto.
  - (* chain *) eapply chain_ok; eauto.
  - (* comparison with a literal *)
    rewrite lookup_senv. destruct (lookup r x) as [w|] eqn:E; cbn [option_map].
    + destruct w as [| b | t | l | b | h | n]; cbn [subst]; try (injection H as <-; exists []; split; reflexivity); try discriminate.
      * destruct (bytes_eqb t lit); [eapply evals_ok; eauto|]. injection H as <-. exists []. split; reflexivity.
      * destruct (forallb is_lit h) eqn:El; [|discriminate]. rewrite (fill_lit h s El).
        destruct (bytes_eqb (fill [] h) lit); [eapply evals_ok; eauto|]. injection H as <-. exists []. split; reflexivity.
    + injection H as <-. exists []. split; reflexivity.
  - (* v-for *)
    rewrite lookup_senv. destruct (lookup r coll) as [w|] eqn:E; cbn [option_map].
    + destruct w as [| b | t | l | b | h | n]; cbn [subst]; try (injection H as <-; exists []; split; reflexivity); try discriminate.
      * eapply loop_ok; eauto. apply (lookup_cons _ _ _ Hr E).
      * destruct (forallb is_lit h); [|discriminate]. injection H as <-. exists []. split; reflexivity.
    + injection H as <-. exists []. split; reflexivity.
  - (* v-for with index *)
    rewrite lookup_senv. destruct (lookup r coll) as [w|] eqn:E; cbn [option_map].
    + destruct w as [| b | t | l | b | h | n]; cbn [subst]; try (injection H as <-; exists []; split; reflexivity); try discriminate.
      * eapply loop2_ok; eauto. apply (lookup_cons _ _ _ Hr E).
      * destruct (forallb is_lit h); [|discriminate]. injection H as <-. exists []. split; reflexivity.
    + injection H as <-. exists []. split; reflexivity.
  - (* include *)
    destruct (nth_error W fi) as [[fm body]|] eqn:En; [|discriminate].
    assert (Hfm : plain_e fm = true).
    { apply nth_error_In in En. unfold plain_W in HW. rewrite forallb_forall in HW. exact (HW _ En). }
    destruct (eval_props r p) as [pe| | |] eqn:Ep; try discriminate. cbn [bind] in H.
    destruct (props_ok _ _ _ Hr Ep) as [Cpe Hpe]. rewrite Hpe. cbn [bind].
    replace (fm ++ senv s pe ++ senv s r) with (senv s (fm ++ pe ++ r)) by (now rewrite !senv_app, (plain_e_senv fm Hfm)).
    apply (evals_ok _ IH body (CSome r content c) (fm ++ pe ++ r) d);
      [cbn; now rewrite Hr, Hc|now rewrite !cons_e_app, (plain_e_cons fm Hfm), Cpe, Hr|exact H].
  - (* slot *)
    destruct c as [|rc [|x0 content] outer]; cbn [sclo].
    + apply (evals_ok _ IH fb CNone r d); auto.
    + apply (evals_ok _ IH fb (CSome rc [] outer) r d); auto.
    + cbn in Hc. apply andb_true_iff in Hc. destruct Hc as [Hrc Ho].
      apply (evals_ok _ IH (x0 :: content) outer rc d); auto.
Qed.
End W.
End Param.


(* non-vacuity: a value forwarded through a loop into text, an attribute, v-text, a component's prop and the
   slot content handed to it is inert; the same value used in a comparison is not (the hole run reports it) *)
Definition w_demo : list (env * list tnode) :=
  [([(9, VNum 3)], [TElem [x75] [ABound [x74] 7] [TText [Var 8; Var 9]; TSlot [TText [Lit [x66]]]]])].
Definition t_ok : tnode :=
  TFor2 2 1 0 [TElem [x61] [ABound [x74] 1; AStatic [x63] [Lit [x78]; Var 1]] [TText [Lit [x3a]; Var 1]; TVText [x70] 1;
            TInclude 0 [PBound 7 1; PStatic 8 [Lit [x4c]; Var 1]] [TShow [x69] 1 [TText [Var 1]]]]].
Example inert_case : exists d, eval w_demo 7 CNone [(0, VList [VHole true; VStr [x7a]])] t_ok = Ok d.
Proof. vm_compute. eexists. reflexivity. Qed.
Example inspected_case : eval w_demo 5 CNone [(1, VHole true)] (TEq 1 [x61] [TText [Lit [x61]]]) = ErrInspect.
Proof. reflexivity. Qed.
(* a string assembled from a literal and a hole cannot have its truthiness decided without looking *)
Example inspected_mixed : eval [([], [TIf 8 [] []])] 5 CNone [(1, VHole true)] (TInclude 0 [PStatic 8 [Lit [x66]; Var 1]] []) = ErrInspect.
Proof. reflexivity. Qed.
