From V Require Import Base.Bytes Model.Entry.

Lemma write_err_prefix fa doc : snd (write fa doc) = true -> exists k, fa = Some k /\ k < length doc /\ fst (write fa doc) = firstn k doc.
Proof.
  unfold write. destruct fa as [k|]; [|discriminate]. destruct (Nat.ltb k (length doc)) eqn:E; [|discriminate].
  intros _. exists k. apply Nat.ltb_lt in E. auto.
Qed.
Lemma write_ok fa doc : snd (write fa doc) = false -> fst (write fa doc) = doc.
Proof. unfold write. destruct fa as [k|]; [|reflexivity]. destruct (Nat.ltb k (length doc)); [discriminate|reflexivity]. Qed.
Lemma write_fault k doc : k < length doc -> write (Some k) doc = (firstn k doc, true).
Proof. intro H. unfold write. apply Nat.ltb_lt in H. now rewrite H. Qed.

Lemma layout_loop_outcome links : forall last fa,
  layout_loop links last fa = match chain_outcome links last with EOk d => write fa d | EErr => ([], true) end.
Proof. induction links as [|[d|] r IH]; intros last fa; cbn; [destruct last; reflexivity|apply IH|reflexivity]. Qed.

(* every entry point = "if cancelled or the program fails: nothing written, error;
   otherwise one copy of the whole document to the writer" *)
Lemma run_entry_spec c en fa :
  run_entry c en fa = if c then ([], true) else match entry_outcome en with EOk d => write fa d | EErr => ([], true) end.
Proof.
  unfold run_entry. destruct c; [reflexivity|]. destruct en as [e|links|ok links|e]; cbn.
  - destruct e; reflexivity.
  - apply layout_loop_outcome.
  - destruct ok; [|reflexivity]. destruct links as [|e [|e2 r]].
    + reflexivity.
    + destruct e; reflexivity.
    + apply layout_loop_outcome.
  - destruct e; reflexivity.
Qed.

Lemma error_writes_nothing c en fa : (c = true \/ entry_outcome en = EErr) -> run_entry c en fa = ([], true).
Proof. rewrite run_entry_spec. intros [->| ->]; [reflexivity|destruct c; reflexivity]. Qed.
Lemma ok_writes_all en doc : entry_outcome en = EOk doc -> run_entry false en None = (doc, false).
Proof. rewrite run_entry_spec. intros ->. reflexivity. Qed.
Lemma nil_error_means_complete c en fa : snd (run_entry c en fa) = false ->
  c = false /\ exists doc, entry_outcome en = EOk doc /\ fst (run_entry c en fa) = doc.
Proof.
  rewrite run_entry_spec. destruct c; [discriminate|]. destruct (entry_outcome en) as [d|]; [|discriminate].
  intro H. split; [reflexivity|]. exists d. split; [reflexivity|]. now apply write_ok.
Qed.
Lemma writer_fault_reported c en k doc : entry_outcome en = EOk doc -> k < length doc ->
  snd (run_entry c en (Some k)) = true.
Proof. rewrite run_entry_spec. intros -> H. destruct c; [reflexivity|]. now rewrite write_fault. Qed.
(* a returned error leaves at most a prefix of the document, and only when the writer itself failed *)
Lemma error_means_writer_fault_or_nothing c en fa : snd (run_entry c en fa) = true ->
  fst (run_entry c en fa) = [] \/
  exists doc k, entry_outcome en = EOk doc /\ fa = Some k /\ k < length doc /\ fst (run_entry c en fa) = firstn k doc.
Proof.
  rewrite run_entry_spec. destruct c; [now left|]. destruct (entry_outcome en) as [d|]; [|now left].
  intro H. right. destruct (write_err_prefix _ _ H) as (k & -> & Hk & E). exists d, k. auto.
Qed.

(* the unrepaired file entry point: a failing writer went unreported *)
Lemma legacy_refuted : exists chunks k, k < length (concat chunks) /\
  snd (legacy_plain chunks (Some k)) = false /\ fst (legacy_plain chunks (Some k)) <> concat chunks.
Proof. exists [[x61; x62]; [x63]], 1. cbn. repeat split; [lia|discriminate]. Qed.
