From Coq Require Import Sorting.Permutation.
From V Require Import Base.Bytes Model.MapOrder.

Section MergeP.
Variable val : Type.
Notation sget := (sget val). Notation sput := (sput val). Notation merge := (merge val).
Lemma sget_sput m k v x : sget (sput m k v) x = if bytes_eqb k x then Some v else sget m x.
Proof.
  induction m as [|[k' v'] r IH]; cbn; [reflexivity|].
  destruct (bytes_eqb_spec k' k) as [->|Hne]; cbn.
  - destruct (bytes_eqb k x); reflexivity.
  - rewrite IH. destruct (bytes_eqb_spec k' x) as [->|H2]; [|reflexivity].
    destruct (bytes_eqb_spec k x); [congruence|reflexivity].
Qed.
Lemma sget_in (r : smap val) x v : sget r x = Some v -> In x (map fst r).
Proof.
  induction r as [|[a b] r IH]; cbn; [discriminate|]. destruct (bytes_eqb_spec a x) as [->|]; [now left|]. intro H. right. auto.
Qed.
Lemma sget_merge entries : NoDup (map fst entries) -> forall acc x,
  sget (merge acc entries) x = match sget entries x with Some v => Some v | None => sget acc x end.
Proof.
  unfold MapOrder.merge. induction entries as [|[k v] r IH]; intros Hnd acc x; cbn; [reflexivity|].
  inversion Hnd as [|? ? Hk Hr]; subst. rewrite IH by assumption. rewrite sget_sput.
  destruct (bytes_eqb_spec k x) as [->|]; [|reflexivity].
  destruct (sget r x) eqn:Ea; [|reflexivity]. exfalso. apply Hk. eapply sget_in; eauto.
Qed.
Lemma sget_perm (a b : smap val) : Permutation a b -> NoDup (map fst a) -> forall x, sget a x = sget b x.
Proof.
  induction 1 as [| [k v] a b Hp IH | [k v] [k' v'] a | a b c H1 IH1 H2 IH2]; intros Hnd x; cbn.
  - reflexivity.
  - inversion Hnd; subst. rewrite IH by assumption. reflexivity.
  - inversion Hnd as [|? ? Hk Hr]; subst. cbn in Hk.
    destruct (bytes_eqb_spec k' x) as [->|], (bytes_eqb_spec k x) as [->|]; try reflexivity.
    exfalso. apply Hk. now left.
  - rewrite IH1 by assumption. apply IH2. eapply Permutation_NoDup; [|exact Hnd]. now apply Permutation_map.
Qed.
(* Go map entries have distinct keys; whatever order the runtime yields them in, merging them into
   an accumulator gives the same value for every key *)
Theorem range_order_irrelevant acc e1 e2 : Permutation e1 e2 -> NoDup (map fst e1) ->
  forall x, sget (merge acc e1) x = sget (merge acc e2) x.
Proof.
  intros Hp Hnd x. rewrite !sget_merge; try assumption.
  - now rewrite (sget_perm _ _ Hp Hnd).
  - eapply Permutation_NoDup; [|exact Hnd]. now apply Permutation_map.
Qed.
End MergeP.
(* the refuted twin: appending depends on the order (what evalAttributes did before the fix) *)
Theorem append_order_matters : exists e1 e2 : smap nat, Permutation e1 e2 /\ append_all nat [] e1 <> append_all nat [] e2.
Proof. exists [([x61], 1); ([x62], 2)], [([x62], 2); ([x61], 1)]. split; [apply perm_swap|discriminate]. Qed.

Section PoolP.
Variable val : Type.
Notation pstep := (pstep val). Notation pstep_fresh := (pstep_fresh val). Notation pool_clean := (pool_clean val).
Notation pview := (pview val).
Lemma pstep_clean s o : pool_clean s -> pool_clean (pstep s o).
Proof.
  unfold MapOrder.pool_clean. destruct s as [st pl out]. cbn. intro H. destruct o as [|id m| |k v]; cbn.
  - destruct pl as [|m r]; cbn; [constructor|now inversion H].
  - exact H.
  - destruct st as [|[m k] r]; cbn; [assumption|]. destruct (is_pool k && nonempty r && nonempty m); [constructor; auto|assumption].
  - destruct st as [|[m kd] r]; cbn; assumption.
Qed.
Lemma pstep_same s o : pool_clean s -> pview (pstep s o) = pstep_fresh (pview s) o.
Proof.
  unfold MapOrder.pool_clean, MapOrder.pview. destruct s as [st pl out]. cbn. intro H. destruct o as [|id m| |k v]; cbn.
  - destruct pl as [|m r]; cbn; [reflexivity|]. inversion H. now subst.
  - reflexivity.
  - destruct st as [|[m k] r]; reflexivity.
  - destruct st as [|[m kd] r]; reflexivity.
Qed.
(* over ANY history of pushes (pooled or caller-owned), sets and pops, the stack of a long-used engine
   AND every map handed back to a caller are what brand-new maps would give *)
Theorem pooled_equals_fresh ops : forall s, pool_clean s ->
  pview (fold_left pstep ops s) = fold_left pstep_fresh ops (pview s).
Proof.
  induction ops as [|o r IH]; intros s H; cbn; [reflexivity|].
  rewrite IH by now apply pstep_clean. now rewrite pstep_same.
Qed.
Theorem pool_stays_clean ops : forall s, pool_clean s -> pool_clean (fold_left pstep ops s).
Proof. induction ops as [|o r IH]; intros s H; cbn; [exact H|]. apply IH. now apply pstep_clean. Qed.
(* hence no lookup, after any history, can tell the pool from brand-new maps *)
Corollary pooled_lookup_equals_fresh ops s k : pool_clean s ->
  plookup val (pstack val (fold_left pstep ops s)) k = plookup val (fstack val (fold_left pstep_fresh ops (pview s))) k.
Proof. intro H. now rewrite <- (pooled_equals_fresh ops s H). Qed.
(* a caller's map is released exactly once per pop of it, with its own bindings below whatever was set
   while it was on top: Pop never clears it *)
Lemma released_own id m out : released val (KOwn id) m out = (id, m) :: out.
Proof. reflexivity. Qed.
Theorem own_map_kept id m sets : forall s,
  let s1 := fold_left pstep (map (fun kv => PSet val (fst kv) (snd kv)) sets) (pstep s (PPushOwn val id m)) in
  pout val (pstep s1 (PPop val)) = (id, rev sets ++ m) :: pout val s.
Proof.
  intro s. cbn zeta.
  assert (G : forall sets m0 st pl out, 
     fold_left pstep (map (fun kv => PSet val (fst kv) (snd kv)) sets) {| pstack := (m0, KOwn id) :: st; ppool := pl; pout := out |}
     = {| pstack := (rev sets ++ m0, KOwn id) :: st; ppool := pl; pout := out |}).
  { clear. induction sets as [|[k v] r IH]; intros m0 st pl out; cbn; [reflexivity|].
    rewrite IH. now rewrite <- app_assoc. }
  destruct s as [st pl out]. cbn. rewrite G. reflexivity.
Qed.
End PoolP.
(* the refuted twin: a Pop that does not clear lets a later, unrelated scope see a stale variable *)
Theorem dirty_pool_leaks : exists ops k,
  plookup nat (pstack nat (fold_left (pstep_dirty nat) ops {| pstack := [([], KRoot)]; ppool := []; pout := [] |})) k
  <> plookup nat (fstack nat (fold_left (pstep_fresh nat) ops {| fstack := [([], KRoot)]; fout := [] |})) k.
Proof. exists [PPush nat; PSet nat [x61] 1; PPop nat; PPush nat], [x61]. vm_compute. discriminate. Qed.
