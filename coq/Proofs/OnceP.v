From V Require Import Base.Bytes Base.Obs Model.Once.

Lemma memb_spec k l : memb k l = true <-> In k l.
Proof.
  unfold memb. rewrite existsb_exists. split.
  - intros [y [H E]]. apply bytes_eqb_eq in E. now subst.
  - intro H. exists k. split; [assumption|apply bytes_eqb_refl].
Qed.
Lemma nodup_app {A} (a b : list A) : NoDup a -> NoDup b -> (forall x, In x a -> ~ In x b) -> NoDup (a ++ b).
Proof.
  induction 1 as [|x a Hx Ha IH]; intros Hb Hd; cbn; [assumption|]. constructor.
  - rewrite in_app_iff. intros [H|H]; [auto|]. eapply Hd; [left; reflexivity|exact H].
  - apply IH; [assumption|]. intros y Hy. apply Hd. right. assumption.
Qed.

Lemma nodup_app_inv {A} (a b : list A) : NoDup (a ++ b) -> NoDup a /\ NoDup b /\ (forall x, In x a -> ~ In x b).
Proof.
  induction a as [|x a IH]; cbn; intro H.
  - split; [constructor|]. split; [assumption|]. intros x [].
  - inversion H as [|? ? Hx Hr]; subst. destruct (IH Hr) as (Na & Nb & D). split; [|split].
    + constructor; [|assumption]. intro Hc. apply Hx. apply in_or_app. now left.
    + assumption.
    + intros y [<-|Hy]; [intro Hc; apply Hx; apply in_or_app; now right|now apply D].
Qed.

(* the invariant: what is emitted has no repeated key, is new with respect to [seen] and is
   recorded; nothing is forgotten; everything recorded was seen before or is emitted *)
Lemma once_inv f : forall seen s' out, once seen f = (s', out) ->
  NoDup (marks out) /\
  (forall k, In k (marks out) -> ~ In k seen /\ In k s') /\
  (forall k, In k seen -> In k s') /\
  (forall k, In k s' -> In k seen \/ In k (marks out)).
Proof.
  induction f as [|m lab kids IHk next IHn]; intros seen s' out H; cbn [once] in H.
  - injection H as <- <-. cbn. split; [constructor|]. split; [intros k []|]. split; [auto|]. intros k Hk. now left.
  - destruct m as [k0|].
    + destruct (memb k0 seen) eqn:Em; [now apply IHn|].
      destruct (once (k0 :: seen) kids) as [s1 ks] eqn:Ek. destruct (once s1 next) as [s2 nx] eqn:En.
      injection H as <- <-. destruct (IHk _ _ _ Ek) as (N1 & I1 & M1 & R1). destruct (IHn _ _ _ En) as (N2 & I2 & M2 & R2).
      assert (Hni : ~ In k0 seen) by (intro Hc; apply memb_spec in Hc; congruence).
      cbn [marks app]. repeat split.
      * constructor.
        -- rewrite in_app_iff. intros [Hc|Hc].
           ++ destruct (I1 k0 Hc) as [Hn _]. apply Hn. now left.
           ++ destruct (I2 k0 Hc) as [Hn _]. apply Hn. apply M1. now left.
        -- apply nodup_app; [assumption|assumption|]. intros x Hx Hx'. destruct (I1 x Hx) as [_ Hin]. destruct (I2 x Hx') as [Hn _]. auto.
      * destruct H as [<-|H]; [assumption|]. apply in_app_or in H. destruct H as [H|H].
        -- destruct (I1 k H) as [Hn _]. intro Hc. apply Hn. now right.
        -- destruct (I2 k H) as [Hn _]. intro Hc. apply Hn. apply M1. now right.
      * destruct H as [<-|H]; [apply M2, M1; now left|]. apply in_app_or in H. destruct H as [H|H].
        -- apply M2. now destruct (I1 k H).
        -- now destruct (I2 k H).
      * intros k Hk. apply M2, M1. now right.
      * intros k Hk. destruct (R2 k Hk) as [H|H].
        -- destruct (R1 k H) as [[<-|H']|H']; [right; now left|now left|right; right; apply in_or_app; now left].
        -- right. right. apply in_or_app. now right.
    + destruct (once seen kids) as [s1 ks] eqn:Ek. destruct (once s1 next) as [s2 nx] eqn:En.
      injection H as <- <-. destruct (IHk _ _ _ Ek) as (N1 & I1 & M1 & R1). destruct (IHn _ _ _ En) as (N2 & I2 & M2 & R2).
      cbn [marks app]. repeat split.
      * apply nodup_app; [assumption|assumption|]. intros x Hx Hx'. destruct (I1 x Hx) as [_ Hin]. destruct (I2 x Hx') as [Hn _]. auto.
      * apply in_app_or in H. destruct H as [H|H]; [now destruct (I1 k H)|].
        destruct (I2 k H) as [Hn _]. intro Hc. apply Hn. now apply M1.
      * apply in_app_or in H. destruct H as [H|H]; [apply M2; now destruct (I1 k H)|now destruct (I2 k H)].
      * intros k Hk. now apply M2, M1.
      * intros k Hk. destruct (R2 k Hk) as [H|H].
        -- destruct (R1 k H) as [H'|H']; [now left|right; apply in_or_app; now left].
        -- right. apply in_or_app. now right.
Qed.

(* 1. within one render every marked element is emitted at most once *)
Theorem once_at_most_once f : NoDup (marks (render f)).
Proof. unfold render. destruct (once [] f) as [s out] eqn:E. now destruct (once_inv f _ _ _ E). Qed.
(* every key that evaluation reached is emitted (exactly once): nothing is suppressed without an emitted twin *)
Theorem reached_iff_emitted f k : In k (fst (once [] f)) <-> In k (marks (render f)).
Proof.
  unfold render. destruct (once [] f) as [s out] eqn:E. cbn. destruct (once_inv f _ _ _ E) as (_ & I & _ & R). split.
  - intro H. destruct (R k H) as [[]|H']. exact H'.
  - intro H. now destruct (I k H).
Qed.
(* 2. the first time it is reached it is kept; every later instantiation is skipped with its subtree *)
Theorem first_reached_is_kept seen k lab kids next : memb k seen = false ->
  exists ks nx, snd (once seen (FNode (Some k) lab kids next)) = FNode (Some k) lab ks nx.
Proof.
  intro H. cbn [once]. rewrite H. destruct (once (k :: seen) kids) as [s1 ks]. destruct (once s1 next) as [s2 nx]. cbn. eauto.
Qed.
Theorem later_instantiation_skipped seen k lab kids next : memb k seen = true ->
  once seen (FNode (Some k) lab kids next) = once seen next.
Proof. intro H. cbn [once]. now rewrite H. Qed.
Theorem seen_is_monotone f seen k : In k seen -> In k (fst (once seen f)).
Proof. intro H. destruct (once seen f) as [s out] eqn:E. cbn. destruct (once_inv f _ _ _ E) as (_ & _ & M & _). auto. Qed.
(* 3. distinct v-once elements never suppress one another: with pairwise different keys nothing is dropped *)
Lemma once_distinct f : forall seen, NoDup (marks f) -> (forall k, In k (marks f) -> ~ In k seen) ->
  snd (once seen f) = f /\ (forall k, In k (fst (once seen f)) <-> In k seen \/ In k (marks f)).
Proof.
  induction f as [|m lab kids IHk next IHn]; intros seen Hn Hd; cbn [once marks] in *.
  - split; [reflexivity|]. cbn. intro k. tauto.
  - destruct m as [k0|]; cbn [app] in *.
    + inversion Hn as [|? ? Hk0 Hn']; subst. destruct (nodup_app_inv _ _ Hn') as (Hnk & Hnn & Hdis).
      assert (Em : memb k0 seen = false).
      { destruct (memb k0 seen) eqn:E; [|reflexivity]. apply memb_spec in E. exfalso. apply (Hd k0); [now left|assumption]. }
      rewrite Em.
      destruct (IHk (k0 :: seen) Hnk) as [Ek Sk].
      { intros k Hk [<-|Hc]; [apply Hk0; apply in_or_app; now left|]. apply (Hd k); [right; apply in_or_app; now left|assumption]. }
      destruct (once (k0 :: seen) kids) as [s1 ks]. cbn in Ek, Sk. subst ks.
      destruct (IHn s1 Hnn) as [En Sn].
      { intros k Hk Hc. apply Sk in Hc. destruct Hc as [[<-|Hc]|Hc].
        - apply Hk0. apply in_or_app. now right.
        - apply (Hd k); [right; apply in_or_app; now right|assumption].
        - now apply (Hdis k). }
      destruct (once s1 next) as [s2 nx]. cbn in En, Sn. subst nx. cbn. split; [reflexivity|].
      intro k. rewrite Sn, Sk. cbn. rewrite in_app_iff. tauto.
    + destruct (nodup_app_inv _ _ Hn) as (Hnk & Hnn & Hdis).
      destruct (IHk seen Hnk) as [Ek Sk]; [intros k Hk; apply Hd; apply in_or_app; now left|].
      destruct (once seen kids) as [s1 ks]. cbn in Ek, Sk. subst ks.
      destruct (IHn s1 Hnn) as [En Sn].
      { intros k Hk Hc. apply Sk in Hc. destruct Hc as [Hc|Hc].
        - apply (Hd k); [apply in_or_app; now right|assumption].
        - now apply (Hdis k). }
      destruct (once s1 next) as [s2 nx]. cbn in En, Sn. subst nx. cbn. split; [reflexivity|].
      intro k. rewrite Sn, Sk. rewrite in_app_iff. tauto.
Qed.
Theorem distinct_never_suppress f : NoDup (marks f) -> render f = f.
Proof. intro H. unfold render. apply once_distinct; [assumption|]. intros k _ []. Qed.
