(* C04 / C10: v-for over a map (stack.go:ForEach, case reflect.Map).  The code takes rv.MapKeys() -
   which the Go runtime hands back in an order of its own choosing - and sorts them by fmt.Sprint
   before iterating.  The model's [for_each] does the same to whatever listing of the map it is given
   ([sort_kv] over the printed keys).  Proved here: the result is sorted by printed key, has exactly
   the map's entries, and is THE SAME for every listing of the same map - so which order the runtime
   picks cannot show in the output. *)
From V Require Import Base.Bytes Base.Obs Base.Val Model.Stack Model.Truthy Model.Loops.
From Coq Require Import Permutation Sorted.

Section KV.
Context {A : Type}.
Definition kle (a b : bytes * A) : Prop := bytes_leb (fst a) (fst b) = true.

Lemma ins_kv_perm (kv : bytes * A) l : Permutation (kv :: l) (ins_kv kv l).
Proof.
  induction l as [|x r IH]; cbn [ins_kv]; [reflexivity|].
  destruct (bytes_leb (fst kv) (fst x)); [reflexivity|].
  etransitivity; [apply perm_swap|]. now constructor.
Qed.
Lemma sort_kv_perm (l : list (bytes * A)) : Permutation l (sort_kv l).
Proof.
  induction l as [|x r IH]; cbn; [constructor|].
  etransitivity; [|apply ins_kv_perm]. now constructor.
Qed.
Lemma ins_kv_sorted (kv : bytes * A) l : StronglySorted kle l -> StronglySorted kle (ins_kv kv l).
Proof.
  induction 1 as [|x r Hs IH Hall]; cbn [ins_kv]; [repeat constructor|].
  destruct (bytes_leb (fst kv) (fst x)) eqn:E.
  - constructor; [now constructor|]. constructor; [exact E|].
    eapply Forall_impl; [|exact Hall]. intros y Hy. unfold kle in *. eapply bytes_leb_trans; eauto.
  - constructor; [exact IH|].
    eapply Permutation_Forall; [apply ins_kv_perm|]. constructor; [|exact Hall].
    unfold kle. destruct (bytes_leb_total (fst x) (fst kv)) as [H|H]; [exact H|congruence].
Qed.
Lemma sort_kv_sorted (l : list (bytes * A)) : StronglySorted kle (sort_kv l).
Proof. induction l as [|x r IH]; cbn; [constructor|]. now apply ins_kv_sorted. Qed.

Lemma nodup_key_inj (l : list (bytes * A)) a b :
  NoDup (map fst l) -> In a l -> In b l -> fst a = fst b -> a = b.
Proof.
  induction l as [|x r IH]; cbn; [tauto|]. intros Hnd Ha Hb E. inversion Hnd as [|? ? Hn Hr]; subst.
  destruct Ha as [->|Ha], Hb as [->|Hb]; [reflexivity| | |now apply IH].
  - exfalso. apply Hn. rewrite E. now apply in_map.
  - exfalso. apply Hn. rewrite <- E. now apply in_map.
Qed.

Lemma sorted_perm_unique (l : list (bytes * A)) : forall l',
  StronglySorted kle l -> StronglySorted kle l' -> Permutation l l' -> NoDup (map fst l) -> l = l'.
Proof.
  induction l as [|a r IH]; intros l' Hs Hs' Hp Hnd.
  - apply Permutation_nil in Hp. now subst.
  - destruct l' as [|b r']; [apply Permutation_sym, Permutation_nil in Hp; discriminate|].
    inversion Hs as [|? ? Hsr Har]; inversion Hs' as [|? ? Hsr' Hbr']; subst.
    assert (Hab : a = b).
    { assert (Hb : In b (a :: r)) by (eapply Permutation_in; [apply Permutation_sym, Hp|now left]).
      assert (Ha : In a (b :: r')) by (eapply Permutation_in; [apply Hp|now left]).
      apply (nodup_key_inj (a :: r)); [exact Hnd|now left|exact Hb|].
      apply bytes_leb_antisym.
      - destruct Hb as [->|Hb]; [apply bytes_leb_refl|]. rewrite Forall_forall in Har. now apply Har.
      - destruct Ha as [->|Ha]; [apply bytes_leb_refl|]. rewrite Forall_forall in Hbr'. now apply Hbr'. }
    subst b. f_equal. apply IH; [exact Hsr|exact Hsr'|now apply Permutation_cons_inv in Hp|now inversion Hnd].
Qed.

(* the order in which the entries of a map are listed (the order Go's runtime iterates in) does not
   show in the sorted listing *)
Theorem sort_kv_order_free (m m' : list (bytes * A)) :
  Permutation m m' -> NoDup (map fst m) -> sort_kv m = sort_kv m'.
Proof.
  intros Hp Hnd. apply sorted_perm_unique; try apply sort_kv_sorted.
  - etransitivity; [apply Permutation_sym, sort_kv_perm|]. etransitivity; [exact Hp|apply sort_kv_perm].
  - eapply Permutation_NoDup; [|exact Hnd]. apply Permutation_map, sort_kv_perm.
Qed.
End KV.

(* ---- ForEach over the three map shapes ---- *)
Theorem for_each_map s p m : resolve s p = Some (VMap m) -> for_each s p = map snd (sort_kv m).
Proof. unfold for_each. now intros ->. Qed.
Theorem for_each_maps s p m : resolve s p = Some (VMapS m) ->
  for_each s p = map snd (sort_kv (map (fun kv => (fst kv, VStr (snd kv))) m)).
Proof. unfold for_each. now intros ->. Qed.
Theorem for_each_mapi s p m : resolve s p = Some (VMapI m) ->
  for_each s p = map snd (sort_kv (map (fun kv => (dec_Z (fst kv), snd kv)) m)).
Proof. unfold for_each. now intros ->. Qed.

(* the items are visited in ascending order of their printed keys, each entry exactly once *)
Theorem for_each_map_sorted_perm v m : map_items v = Some m ->
  exists l, for_each_val v = map snd l /\ StronglySorted kle l /\ Permutation m l.
Proof.
  intro H. exists (sort_kv m). split; [|split; [apply sort_kv_sorted|apply sort_kv_perm]].
  destruct v; try discriminate; cbn in H |- *; injection H as <-; reflexivity.
Qed.

(* two listings of one map (same entries, keys distinct, any order) are looped over alike: same
   items in the same order, hence - the loop being a function of the item list - the same instances *)
Theorem for_each_val_order_free v v' m m' :
  map_items v = Some m -> map_items v' = Some m' -> Permutation m m' -> NoDup (map fst m) ->
  for_each_val v = for_each_val v'.
Proof.
  intros H H' Hp Hnd.
  assert (E : forall w l, map_items w = Some l -> for_each_val w = map snd (sort_kv l)).
  { intros w l Hw. destruct w; try discriminate; cbn in Hw |- *; injection Hw as <-; reflexivity. }
  rewrite (E _ _ H), (E _ _ H'). f_equal. now apply sort_kv_order_free.
Qed.
Theorem map_loop_order_free s s' p p' v v' m m' vars cond body i :
  resolve s p = Some v -> resolve s' p' = Some v' ->
  map_items v = Some m -> map_items v' = Some m' -> Permutation m m' -> NoDup (map fst m) ->
  instances s vars cond body (for_each s p) i = instances s vars cond body (for_each s' p') i.
Proof.
  intros R R' H H' Hp Hnd. unfold for_each. rewrite R, R'.
  now rewrite (for_each_val_order_free v v' m m' H H' Hp Hnd).
Qed.

(* the refuted twin: iterating a map in the order it is listed (what the code did before it sorted the
   keys) gives different item orders for two listings of the same map *)
Theorem unsorted_map_loop_order_matters : exists m m' : list (bytes * val),
  Permutation m m' /\ NoDup (map fst m) /\ map snd m <> map snd m' /\ map snd (sort_kv m) = map snd (sort_kv m').
Proof.
  exists [(bs "a", VStr (bs "1")); (bs "b", VStr (bs "2"))], [(bs "b", VStr (bs "2")); (bs "a", VStr (bs "1"))].
  split; [apply perm_swap|]. split; [|split; [discriminate|reflexivity]].
  constructor; [cbn; intros [H|[]]; discriminate|]. constructor; [intros []|constructor].
Qed.

(* non-vacuity: int keys are ordered by their decimal spelling, as sort.Slice over fmt.Sprint does *)
Example mapi_order :
  for_each_val (VMapI [(2, VStr (bs "two")); (9, VStr (bs "nine")); (10, VStr (bs "ten"))]%Z)
  = [VStr (bs "ten"); VStr (bs "two"); VStr (bs "nine")].
Proof. reflexivity. Qed.
