From V Require Import Base.Bytes Model.Escape.
Lemma escape_cons c r : escape (c :: r) = esc1 c ++ escape r.
Proof. reflexivity. Qed.
Lemma escape_app a b : escape (a ++ b) = escape a ++ escape b.
Proof. unfold escape. apply flat_map_app. Qed.

Lemma esc1_no (b : byte) : (b = x3c \/ b = x22 \/ b = x27 \/ b = x3e) -> forall c, ~ In b (esc1 c).
Proof.
  intros Hb c. unfold esc1.
  bcase c x26; [cbn; intuition congruence|].
  bcase c x27; [cbn; intuition congruence|].
  bcase c x3c; [cbn; intuition congruence|].
  bcase c x3e; [cbn; intuition congruence|].
  bcase c x22; [cbn; intuition congruence|].
  cbn. intuition congruence.
Qed.
Lemma escape_no b : (b = x3c \/ b = x22 \/ b = x27 \/ b = x3e) -> forall s, ~ In b (escape s).
Proof. intros Hb s H. apply in_flat_map in H. destruct H as [c [_ H]]. eapply esc1_no; eauto. Qed.

Lemma try_refs_esc1 c r : special c = true -> try_refs refs (esc1 c ++ r) = Some (c, r).
Proof.
  unfold special, esc1.
  bcase c x26; [intros _; reflexivity|].
  bcase c x27; [intros _; reflexivity|].
  bcase c x3c; [intros _; reflexivity|].
  bcase c x3e; [intros _; reflexivity|].
  bcase c x22; [intros _; reflexivity|].
  cbn. discriminate.
Qed.
Lemma try_refs_plain c r : c <> x26 -> try_refs refs (c :: r) = None.
Proof.
  intro H. unfold refs, r_amp, r_39, r_lt, r_gt, r_34. cbn [try_refs].
  rewrite !strip_head_ne by congruence. reflexivity.
Qed.
Lemma esc1_plain c : special c = false -> esc1 c = [c] /\ c <> x26.
Proof.
  unfold special, esc1.
  bcase c x26; [discriminate|]. bcase c x27; [discriminate|]. bcase c x3c; [discriminate|].
  bcase c x3e; [discriminate|]. bcase c x22; [discriminate|]. auto.
Qed.
Lemma esc1_len c : 1 <= List.length (esc1 c).
Proof. unfold esc1. repeat match goal with |- context[beq c ?b] => destruct (beq c b) end; cbn; lia. Qed.

Theorem unescape_f_escape s : forall fuel, List.length (escape s) <= fuel -> unescape_f fuel (escape s) = s.
Proof.
  induction s as [|c r IH]; intros fuel Hf.
  - destruct fuel; reflexivity.
  - rewrite escape_cons in *. rewrite app_length in Hf. pose proof (esc1_len c).
    destruct fuel as [|f]; [lia|].
    destruct (special c) eqn:Hs.
    + cbn [unescape_f]. destruct (esc1 c ++ escape r) eqn:E.
      * destruct (esc1 c); [cbn in *; lia|discriminate].
      * rewrite <- E. rewrite try_refs_esc1 by assumption. f_equal. apply IH. lia.
    + destruct (esc1_plain c Hs) as [-> Hc]. cbn [app unescape_f].
      rewrite try_refs_plain by assumption. f_equal. apply IH. cbn in Hf. lia.
Qed.


Theorem unescape_escape s : unescape (escape s) = s.
Proof. unfold unescape. apply unescape_f_escape. lia. Qed.
Lemma needs_escape_false s : needs_escape s = false -> escape s = s.
Proof.
  unfold needs_escape, escape. induction s as [|c r IH]; cbn; [reflexivity|]. intro H.
  apply orb_false_elim in H. destruct H as [Hc Hr]. destruct (esc1_plain c Hc) as [-> _]. cbn. f_equal. auto.
Qed.
