From V Require Import Base.Bytes Model.Stack Model.ForHead.
(* names and collection expressions as the generator of the C04 stream writes them: no blank, no " in " inside *)
Definition plain (s : bytes) : Prop := s <> [] /\ forallb (fun c => negb (is_ws c)) s = true.

Lemma strip_in_plain c r : is_ws c = false -> strip s_in (c :: r) = None.
Proof.
  intro H. unfold s_in. cbn [strip]. destruct (beq x20 c) eqn:E; [|reflexivity].
  apply beq_true in E. subst c. discriminate.
Qed.
(* the first " in " after a word without blanks is found right behind the word *)
Lemma split_in_word w rest : forallb (fun c => negb (is_ws c)) w = true ->
  split_in (w ++ s_in ++ rest) = Some (w, rest).
Proof.
  induction w as [|c w IH]; intro H.
  - cbn [app]. unfold split_in. destruct rest; cbn; reflexivity.
  - cbn [forallb] in H. apply andb_true_iff in H. destruct H as [Hc Hw]. apply negb_true_iff in Hc.
    cbn [app]. change (split_in (c :: w ++ s_in ++ rest)) with
      (match strip s_in (c :: w ++ s_in ++ rest) with
       | Some r => Some ([], r)
       | None => match split_in (w ++ s_in ++ rest) with Some (a, b) => Some (c :: a, b) | None => None end
       end).
    rewrite (strip_in_plain c _ Hc), (IH Hw). reflexivity.
Qed.

Lemma drop_ws_plain s : forallb (fun c => negb (is_ws c)) s = true -> drop_ws s = s.
Proof. destruct s as [|c s]; [reflexivity|]. cbn. intro H. apply andb_true_iff in H. destruct H as [Hc _]. apply negb_true_iff in Hc. now rewrite Hc. Qed.
Lemma plain_rev s : forallb (fun c => negb (is_ws c)) (rev s) = forallb (fun c => negb (is_ws c)) s.
Proof.
  induction s as [|c s IH]; [reflexivity|]. cbn [rev forallb]. rewrite forallb_app, IH. cbn. rewrite andb_true_r. apply andb_comm.
Qed.
Lemma trim_plain s : forallb (fun c => negb (is_ws c)) s = true -> trim s = s.
Proof.
  intro H. unfold trim. rewrite (drop_ws_plain s H), drop_ws_plain by (now rewrite plain_rev). apply rev_involutive.
Qed.
Lemma plain_app a b : forallb (fun c => negb (is_ws c)) a = true -> forallb (fun c => negb (is_ws c)) b = true ->
  forallb (fun c => negb (is_ws c)) (a ++ b) = true.
Proof. intros Ha Hb. now rewrite forallb_app, Ha, Hb. Qed.

Definition hdws (s : bytes) : bool := match s with c :: _ => is_ws c | [] => true end.
Lemma hdws_app a b : a <> [] -> hdws (a ++ b) = hdws a.
Proof. destruct a; [congruence|reflexivity]. Qed.
Lemma hdws_plain s : s <> [] -> forallb (fun c => negb (is_ws c)) s = true -> hdws s = false.
Proof. destruct s as [|c s]; [congruence|]. cbn. intros _ H. apply andb_true_iff in H. destruct H as [H _]. now apply negb_true_iff. Qed.
Lemma trim_ends s : hdws s = false -> hdws (rev s) = false -> trim s = s.
Proof.
  intros H1 H2. unfold trim.
  assert (D : forall t, hdws t = false -> drop_ws t = t) by (intros [|c t]; cbn; [discriminate|intro E; now rewrite E]).
  rewrite (D s H1), (D (rev s) H2). apply rev_involutive.
Qed.
Lemma rev_nonnil (s : bytes) : s <> [] -> rev s <> [].
Proof. destruct s; [congruence|]. cbn. intros _ H. destruct (rev s); discriminate. Qed.
Lemma trim_sentence x mid c : plain x -> plain c -> trim (x ++ mid ++ c) = x ++ mid ++ c.
Proof.
  intros [Hx0 Hx] [Hc0 Hc]. apply trim_ends.
  - rewrite hdws_app by assumption. now apply hdws_plain.
  - rewrite !rev_app_distr, <- app_assoc, hdws_app by (now apply rev_nonnil).
    apply hdws_plain; [now apply rev_nonnil|now rewrite plain_rev].
Qed.

(* "item in items" *)
Theorem head_one x c : plain x -> plain c -> (forall r, x <> x28 :: r) ->
  parse_for (x ++ s_in ++ c) = Some ([x], c).
Proof.
  intros Px Pc Hp. unfold parse_for. rewrite (trim_sentence x s_in c Px Pc).
  destruct Px as [Hx0 Hx]. destruct Pc as [Hc0 Hc].
  rewrite (split_in_word x c Hx), (trim_plain x Hx), (trim_plain c Hc).
  destruct x as [|a x]; [congruence|].
  destruct (beq a x28) eqn:E; [apply beq_true in E; subst a; exfalso; exact (Hp x eq_refl)|].
  cbn [andb]. reflexivity.
Qed.

(* "(item) in items" and "(index,item) in items": the names between the parentheses, split at the commas *)
Definition nocomma (s : bytes) : Prop := ~ In x2c s.
Lemma split_on_nocomma s : nocomma s -> split_on x2c s = [s].
Proof.
  induction s as [|c s IH]; intro H; [reflexivity|]. cbn [split_on].
  destruct (beq c x2c) eqn:E; [apply beq_true in E; subst c; exfalso; apply H; now left|].
  rewrite IH by (intro X; apply H; now right). reflexivity.
Qed.
Lemma split_on_comma a b : nocomma a -> split_on x2c (a ++ x2c :: b) = a :: split_on x2c b.
Proof.
  induction a as [|c a IH]; intro H; cbn [app split_on].
  - reflexivity.
  - destruct (beq c x2c) eqn:E; [apply beq_true in E; subst c; exfalso; apply H; now left|].
    rewrite IH by (intro X; apply H; now right). reflexivity.
Qed.
Lemma last_is_snoc c s : last_is c (s ++ [c]) = true.
Proof. unfold last_is. rewrite rev_app_distr. cbn. apply beq_refl. Qed.
Lemma inner_paren s : inner (x28 :: s ++ [x29]) = s.
Proof. unfold inner. apply removelast_last. Qed.

Theorem head_paren_one x c : plain x -> plain c -> nocomma x ->
  parse_for (x28 :: x ++ [x29] ++ s_in ++ c) = Some ([x], c).
Proof.
  intros Px Pc Hn. unfold parse_for.
  assert (Pw : plain (x28 :: x ++ [x29])).
  { destruct Px as [_ Hx]. split; [discriminate|]. cbn [forallb]. rewrite forallb_app, Hx. reflexivity. }
  replace (x28 :: x ++ [x29] ++ s_in ++ c) with ((x28 :: x ++ [x29]) ++ s_in ++ c)
    by (cbn [app]; now rewrite <- !app_assoc).
  rewrite (trim_sentence _ s_in c Pw Pc). destruct Pw as [_ Hw]. destruct Pc as [_ Hc]. destruct Px as [Hx0 Hx].
  rewrite (split_in_word _ c Hw), (trim_plain _ Hw), (trim_plain c Hc).
  cbn [beq]. rewrite beq_refl. cbn [andb].
  change (x28 :: x ++ [x29]) with ((x28 :: x) ++ [x29]). rewrite last_is_snoc. cbn [andb].
  assert (Hl : Nat.leb 2 (length ((x28 :: x) ++ [x29])) = true).
  { rewrite app_length. cbn. destruct (length x); reflexivity. }
  rewrite Hl. change ((x28 :: x) ++ [x29]) with (x28 :: x ++ [x29]). rewrite inner_paren, (trim_plain x Hx), (split_on_nocomma x Hn).
  cbn [map]. rewrite (trim_plain x Hx). destruct x; [congruence|reflexivity].
Qed.
Theorem head_paren_two i v c : plain i -> plain v -> plain c -> nocomma i -> nocomma v ->
  parse_for (x28 :: i ++ [x2c] ++ v ++ [x29] ++ s_in ++ c) = Some ([i; v], c).
Proof.
  intros Pi Pv Pc Hi Hv. unfold parse_for.
  set (w := i ++ [x2c] ++ v).
  assert (Hw : forallb (fun c => negb (is_ws c)) w = true).
  { unfold w. destruct Pi as [_ Hi']. destruct Pv as [_ Hv']. rewrite !forallb_app, Hi', Hv'. reflexivity. }
  assert (Pw : plain (x28 :: w ++ [x29])).
  { split; [discriminate|]. cbn [forallb]. rewrite forallb_app, Hw. reflexivity. }
  replace (x28 :: i ++ [x2c] ++ v ++ [x29] ++ s_in ++ c) with ((x28 :: w ++ [x29]) ++ s_in ++ c)
    by (unfold w; cbn [app]; now rewrite <- !app_assoc).
  rewrite (trim_sentence _ s_in c Pw Pc). destruct Pw as [_ Hpw]. destruct Pc as [_ Hc].
  rewrite (split_in_word _ c Hpw), (trim_plain _ Hpw), (trim_plain c Hc).
  cbn [beq]. rewrite beq_refl. cbn [andb].
  change (x28 :: w ++ [x29]) with ((x28 :: w) ++ [x29]). rewrite last_is_snoc. cbn [andb].
  assert (Hl : Nat.leb 2 (length ((x28 :: w) ++ [x29])) = true).
  { rewrite app_length. cbn. destruct (length w); reflexivity. }
  rewrite Hl. change ((x28 :: w) ++ [x29]) with (x28 :: w ++ [x29]). rewrite inner_paren, (trim_plain w Hw).
  unfold w. cbn [app]. rewrite (split_on_comma i v Hi), (split_on_nocomma v Hv). cbn [map].
  destruct Pi as [Hi0 Hi']. destruct Pv as [_ Hv']. rewrite (trim_plain i Hi'), (trim_plain v Hv').
  destruct i; [congruence|reflexivity].
Qed.
(* the spellings with blanks inside the parentheses, on concrete names *)
Example head_spaced : parse_for (bs "( i , item )  in  items ") = Some ([bs "i"; bs "item"], bs "items")
  /\ parse_for (bs " ( item ) in list.of.items") = Some ([bs "item"], bs "list.of.items")
  /\ parse_for (bs "item") = None /\ parse_for (bs " in items") = None /\ parse_for (bs "() in items") = None
  /\ loop_head (bs "(a, b, c) in items") = None.
Proof. vm_compute. repeat split. Qed.
