From Coq Require Import List Bool Arith Lia Wellfounded.
Import ListNotations.
From V Require Import Model.Chain.
(* fuel monotonicity is avoided by always giving length l; helper facts *)
Lemma drop_members_len l : length (drop_members l) <= length l.
Proof. induction l as [|n r IH]; cbn; [lia|]. destruct (elseish n); cbn; lia. Qed.
Lemma spec_fuel l : forall f g, length l <= f -> length l <= g -> spec f l = spec g l.
Proof.
  induction l as [l IH] using (well_founded_induction (wf_inverse_image _ _ lt (@length node) lt_wf)).
  intros f g Hf Hg. destruct l as [|n r].
  - destruct f, g; reflexivity.
  - destruct f as [|f]; [cbn in Hf; lia|]. destruct g as [|g]; [cbn in Hg; lia|]. cbn in Hf, Hg.
    destruct n as [c i|c i|i|i|i|k i]; cbn [spec]; try (apply IH; cbn; lia); try (f_equal; apply IH; cbn; pose proof (drop_members_len r); lia).
    destruct k as [|k].
    + destruct r as [|[c j|c j|j|j|j|k' j] r']; cbn [rep_id app]; try (apply IH; cbn in *; lia).
      f_equal. apply IH; cbn in *; lia.
    + f_equal. apply IH; cbn; lia.
Qed.
Lemma evaluate_fuel l : forall f g, length l <= f -> length l <= g -> evaluate f l = evaluate g l.
Proof.
  induction l as [l IH] using (well_founded_induction (wf_inverse_image _ _ lt (@length node) lt_wf)).
  intros f g Hf Hg. destruct l as [|n r].
  - destruct f, g; reflexivity.
  - destruct f as [|f]; [cbn in Hf; lia|]. destruct g as [|g]; [cbn in Hg; lia|]. cbn in Hf, Hg.
    destruct n as [c i|c i|i|i|i|k i]; cbn [evaluate]; try (apply IH; cbn; lia).
    + destruct (chain c i r) as [out skip]. f_equal.
      apply IH; cbn; rewrite ?skipn_length; lia.
    + f_equal. apply IH; cbn; lia.
    + destruct k as [|k].
      * destruct (for_else r 1) as [out skip]. f_equal. apply IH; cbn; rewrite ?skipn_length; lia.
      * f_equal. apply IH; cbn; lia.
Qed.

(* after skipping k nodes that are all non-elements or chain members, the elements left
   are the original elements minus the members among the skipped ones *)

Lemma E_other i r : E (NOther i :: r) = E r. Proof. reflexivity. Qed.
Lemma E_orphan n r : elseish n = true -> E (n :: r) = E r.
Proof. destruct n; try discriminate; reflexivity. Qed.

(* orphans and non-elements in front do not matter *)
Lemma E_drop_prefix pre r : forallb (fun n => negb (is_elem n) || elseish n) pre = true -> E (pre ++ r) = E r.
Proof.
  induction pre as [|n pre IH]; cbn [app forallb]; [reflexivity|].
  intro H. apply andb_true_iff in H. destruct H as [Hn Hp].
  destruct n; cbn in Hn; try discriminate; unfold E; cbn [length evaluate]; fold (E (pre ++ r)); auto.
Qed.

(* ---- facts about members ---- *)
Lemma take_drop l : take_members l ++ drop_members l = l.
Proof. induction l as [|n r IH]; cbn; [reflexivity|]. destruct (elseish n); cbn; congruence. Qed.
Lemma take_all_elseish l : forallb elseish (take_members l) = true.
Proof. induction l as [|n r IH]; cbn; [reflexivity|]. destruct (elseish n) eqn:E; cbn; [now rewrite E|reflexivity]. Qed.
Lemma elems_app a b : elems (a ++ b) = elems a ++ elems b.
Proof. apply filter_app. Qed.
Lemma skipn_app_len {A} (a b : list A) : skipn (length a) (a ++ b) = b.
Proof. induction a; cbn; auto. Qed.

(* spec ignores leading orphans *)
Lemma S_orphans lo x : forallb elseish lo = true -> S_ (lo ++ x) = S_ x.
Proof.
  induction lo as [|n lo IH]; cbn [app forallb]; [reflexivity|].
  intro H. apply andb_true_iff in H. destruct H as [Hn Hl].
  unfold S_ at 1. cbn [length]. destruct n; try discriminate; cbn [spec]; fold (S_ (lo ++ x)); auto.
Qed.

Lemma elems_cons_elem n r : is_elem n = true -> elems (n :: r) = n :: elems r.
Proof. intro H. unfold elems. cbn. now rewrite H. Qed.
Lemma elems_cons_other i r : elems (NOther i :: r) = elems r.
Proof. reflexivity. Qed.

(* the scan with the v-if false *)
Lemma find_branch_spec rest : forall pre last,
  last <= length pre ->
  forallb (fun n => negb (is_elem n)) (skipn last pre) = true ->
  let '(out, skip) := find_branch rest (S (length pre)) last in
  out = first_truthy (take_members (elems rest)) /\
  exists lo, elems (skipn skip (pre ++ rest)) = lo ++ drop_members (elems rest) /\
             forallb elseish lo = true.
Proof.
  induction rest as [|n r IH]; intros pre last Hl Hpre.
  - cbn. split; [reflexivity|]. exists []. split; [|reflexivity]. rewrite app_nil_r. cbn.
    unfold elems. clear Hl. induction (skipn last pre) as [|x xs IHx]; cbn in *; [reflexivity|].
    apply andb_true_iff in Hpre. destruct Hpre as [Hx Hxs]. destruct (is_elem x); [discriminate|auto].
  - assert (Hstop : is_elem n = true -> elseish n = false ->
                    elems (skipn last (pre ++ n :: r)) = drop_members (elems (n :: r))).
    { intros He Hne. rewrite <- (firstn_skipn last pre) at 1. rewrite <- app_assoc.
      assert (Hlen : length (firstn last pre) = last) by (rewrite firstn_length; lia).
      rewrite <- Hlen at 1. rewrite skipn_app_len, elems_app.
      replace (elems (skipn last pre)) with (@nil node).
      - cbn. unfold elems. cbn. rewrite He. cbn. now rewrite Hne.
      - symmetry. clear -Hpre. induction (skipn last pre) as [|x xs IHx]; cbn in *; [reflexivity|].
        apply andb_true_iff in Hpre. destruct Hpre as [Hx Hxs]. destruct (is_elem x); [discriminate|auto]. }
    assert (Hnext : forall last', last' <= length (pre ++ [n]) ->
              forallb (fun n => negb (is_elem n)) (skipn last' (pre ++ [n])) = true ->
              let '(out, skip) := find_branch r (S (S (length pre))) last' in
              out = first_truthy (take_members (elems r)) /\
              exists lo, elems (skipn skip (pre ++ n :: r)) = lo ++ drop_members (elems r) /\
                         forallb elseish lo = true).
    { intros last' H1 H2. specialize (IH (pre ++ [n]) last' H1 H2).
      rewrite app_length in IH. cbn [length] in IH. rewrite Nat.add_1_r in IH.
      rewrite <- app_assoc in IH. exact IH. }
    destruct n as [c i | c i | i | i | i | k i]; cbn [find_branch];
      [| | | | |split; [reflexivity|]; exists []; split; [|reflexivity]; now apply Hstop].
    + split; [reflexivity|]. exists []. split; [|reflexivity]. now apply Hstop.
    + destruct c.
      * split; [unfold elems; cbn; reflexivity|]. exists (take_members (elems r)).
        split; [|apply take_all_elseish].
        replace (pre ++ NElseIf true i :: r) with ((pre ++ [NElseIf true i]) ++ r) by now rewrite <- app_assoc.
        replace (S (length pre)) with (length (pre ++ [NElseIf true i])) by (rewrite app_length; cbn; lia).
        rewrite skipn_app_len. rewrite (elems_cons_elem _ r) by reflexivity. cbn [drop_members elseish]. now rewrite take_drop.
      * specialize (Hnext (S (length pre))). destruct (find_branch r (S (S (length pre))) (S (length pre))) as [out skip].
        destruct Hnext as [Ho [lo [Hlo Hall]]].
        { rewrite app_length. cbn. lia. }
        { replace (S (length pre)) with (length (pre ++ [NElseIf false i])) by (rewrite app_length; cbn; lia).
          now rewrite skipn_all. }
        split; [unfold elems; cbn; exact Ho|]. exists lo. split; [|assumption].
        rewrite Hlo. rewrite (elems_cons_elem _ r) by reflexivity. reflexivity.
    + split; [unfold elems; cbn; reflexivity|]. exists (take_members (elems r)).
      split; [|apply take_all_elseish].
      replace (pre ++ NElse i :: r) with ((pre ++ [NElse i]) ++ r) by now rewrite <- app_assoc.
      replace (S (length pre)) with (length (pre ++ [NElse i])) by (rewrite app_length; cbn; lia).
      rewrite skipn_app_len. rewrite (elems_cons_elem _ r) by reflexivity. cbn [drop_members elseish]. now rewrite take_drop.
    + split; [reflexivity|]. exists []. split; [|reflexivity]. now apply Hstop.
    + specialize (Hnext last). destruct (find_branch r (S (S (length pre))) last) as [out skip].
      destruct Hnext as [Ho [lo [Hlo Hall]]].
      { rewrite app_length. cbn. lia. }
      { rewrite skipn_app. replace (last - length pre) with 0 by lia. cbn [skipn].
        rewrite forallb_app, Hpre. reflexivity. }
      split; [unfold elems; cbn; exact Ho|]. exists lo. split; [|assumption].
      rewrite Hlo. rewrite elems_cons_other. reflexivity.
Qed.

Lemma no_elems l : forallb (fun n => negb (is_elem n)) l = true -> elems l = [].
Proof.
  induction l as [|x xs IH]; cbn; [reflexivity|]. intro H. apply andb_true_iff in H.
  destruct H as [Hx Hxs]. unfold elems. cbn. destruct (is_elem x); [discriminate|]. now apply IH.
Qed.

(* the scan with the v-if true: every member is consumed *)
Lemma last_member_spec rest : forall pre last,
  last <= length pre ->
  forallb (fun n => negb (is_elem n)) (skipn last pre) = true ->
  elems (skipn (last_member rest (S (length pre)) last) (pre ++ rest)) = drop_members (elems rest).
Proof.
  induction rest as [|n r IH]; intros pre last Hl Hpre.
  - cbn. rewrite app_nil_r. now apply no_elems.
  - assert (Hstop : elems (skipn last (pre ++ n :: r)) = elems (n :: r)).
    { rewrite <- (firstn_skipn last pre) at 1. rewrite <- app_assoc.
      assert (Hlen : length (firstn last pre) = last) by (rewrite firstn_length; lia).
      rewrite <- Hlen at 1. rewrite skipn_app_len, elems_app, (no_elems _ Hpre). reflexivity. }
    assert (Hnext : forall last', last' <= length (pre ++ [n]) ->
              forallb (fun n => negb (is_elem n)) (skipn last' (pre ++ [n])) = true ->
              elems (skipn (last_member r (S (S (length pre))) last') (pre ++ n :: r)) = drop_members (elems r)).
    { intros last' H1 H2. specialize (IH (pre ++ [n]) last' H1 H2).
      rewrite app_length in IH. cbn [length] in IH. rewrite Nat.add_1_r in IH.
      rewrite <- app_assoc in IH. exact IH. }
    cbn [last_member].
    destruct n as [c i | c i | i | i | i | k i]; cbn [is_elem elseish negb]; [| | | | |rewrite Hstop; reflexivity].
    + rewrite Hstop. reflexivity.
    + rewrite Hnext.
      * rewrite (elems_cons_elem _ r) by reflexivity. reflexivity.
      * rewrite app_length. cbn. lia.
      * replace (S (length pre)) with (length (pre ++ [NElseIf c i])) by (rewrite app_length; cbn; lia).
        now rewrite skipn_all.
    + rewrite Hnext.
      * rewrite (elems_cons_elem _ r) by reflexivity. reflexivity.
      * rewrite app_length. cbn. lia.
      * replace (S (length pre)) with (length (pre ++ [NElse i])) by (rewrite app_length; cbn; lia).
        now rewrite skipn_all.
    + rewrite Hstop. reflexivity.
    + rewrite Hnext.
      * now rewrite elems_cons_other.
      * rewrite app_length. cbn. lia.
      * rewrite skipn_app. replace (last - length pre) with 0 by lia. cbn [skipn].
        rewrite forallb_app, Hpre. reflexivity.
Qed.

(* the scan after an empty loop: only a v-else that is the next element counts *)
Lemma for_else_spec rest : forall pre,
  forallb (fun n => negb (is_elem n)) pre = true ->
  let '(out, skip) := for_else rest (S (length pre)) in
  match elems rest with
  | NElse j :: er => out = [j] /\ elems (skipn skip (pre ++ rest)) = er
  | _ => out = [] /\ skip = 0
  end.
Proof.
  induction rest as [|n r IH]; intros pre Hpre; [cbn; auto|].
  destruct n as [c i | c i | i | i | i | k i]; cbn [for_else]; try (rewrite (elems_cons_elem _ r) by reflexivity; auto).
  - split; [reflexivity|].
    replace (pre ++ NElse i :: r) with ((pre ++ [NElse i]) ++ r) by now rewrite <- app_assoc.
    replace (S (length pre)) with (length (pre ++ [NElse i])) by (rewrite app_length; cbn; lia).
    now rewrite skipn_app_len.
  - rewrite elems_cons_other. specialize (IH (pre ++ [NOther i])).
    rewrite app_length in IH. cbn [length] in IH. rewrite Nat.add_1_r in IH. rewrite <- app_assoc in IH.
    apply IH. rewrite forallb_app, Hpre. reflexivity.
Qed.

Lemma elems_len l : length (elems l) <= length l.
Proof. unfold elems. induction l as [|x xs IH]; cbn; [lia|]. destruct (is_elem x); cbn; lia. Qed.

(* ---- the theorem ---- *)
Theorem chain_walker_correct : forall l, E l = S_ (elems l).
Proof.
  intro l. remember (length l) as k eqn:Hk. revert l Hk.
  induction k as [k IH] using lt_wf_ind. intros l Hk.
  destruct l as [|n r]; [reflexivity|]. cbn [length] in Hk.
  assert (IHr : forall x, length x <= length r -> E x = S_ (elems x)).
  { intros x Hx. apply (IH (length x)); [lia|reflexivity]. }
  destruct n as [c i | c i | i | i | i | m i].
  - (* v-if *)
    unfold E. cbn [length evaluate].
    rewrite (elems_cons_elem _ r) by reflexivity.
    unfold S_. cbn [length spec].
    unfold chain. destruct c.
    + pose proof (last_member_spec r [] 0 (le_n 0) eq_refl) as Hs. cbn [length app] in Hs.
      cbn [app]. f_equal.
      rewrite (evaluate_fuel _ _ (length (skipn (last_member r 1 0) r))) by (rewrite ?skipn_length; lia).
      fold (E (skipn (last_member r 1 0) r)). rewrite IHr by (rewrite skipn_length; lia).
      rewrite Hs. unfold S_. apply spec_fuel; pose proof (drop_members_len (elems r)); pose proof (elems_len r); lia.
    + pose proof (find_branch_spec r [] 0 (le_n 0) eq_refl) as Hs. cbn [length app] in Hs.
      destruct (find_branch r 1 0) as [out skip]. destruct Hs as [-> [lo [Hlo Hall]]].
      f_equal.
      rewrite (evaluate_fuel _ _ (length (skipn skip r))) by (rewrite ?skipn_length; lia).
      fold (E (skipn skip r)). rewrite IHr by (rewrite skipn_length; lia).
      rewrite Hlo, S_orphans by assumption. unfold S_.
      apply spec_fuel; pose proof (drop_members_len (elems r)); pose proof (elems_len r); lia.
  - (* orphan v-else-if *)
    rewrite E_orphan by reflexivity. rewrite IHr by lia.
    rewrite (elems_cons_elem _ r) by reflexivity.
    change (NElseIf c i :: elems r) with ([NElseIf c i] ++ elems r). now rewrite S_orphans.
  - rewrite E_orphan by reflexivity. rewrite IHr by lia.
    rewrite (elems_cons_elem _ r) by reflexivity.
    change (NElse i :: elems r) with ([NElse i] ++ elems r). now rewrite S_orphans.
  - (* plain element *)
    unfold E. cbn [length evaluate]. fold (E r). rewrite IHr by lia.
    rewrite (elems_cons_elem _ r) by reflexivity. unfold S_. cbn [length spec]. reflexivity.
  - rewrite E_other, elems_cons_other. apply IHr. lia.
  - (* v-for *)
    unfold E. cbn [length evaluate]. rewrite (elems_cons_elem _ r) by reflexivity.
    destruct m as [|m].
    + pose proof (for_else_spec r [] eq_refl) as Hs. cbn [length app] in Hs.
      destruct (for_else r 1) as [out skip].
      rewrite (evaluate_fuel _ _ (length (skipn skip r))) by (rewrite ?skipn_length; lia).
      fold (E (skipn skip r)). rewrite IHr by (rewrite skipn_length; lia).
      destruct (elems r) as [|[c j|c j|j|j|j|k' j] er] eqn:Her.
      * destruct Hs as [-> ->]. cbn [skipn app]. rewrite Her. reflexivity.
      * destruct Hs as [-> ->]. cbn [skipn app]. rewrite Her. unfold S_. cbn [length spec rep_id app]. reflexivity.
      * destruct Hs as [-> ->]. cbn [skipn app]. rewrite Her. unfold S_. cbn [length spec rep_id app]. reflexivity.
      * destruct Hs as [-> Hs]. rewrite Hs. unfold S_. cbn [length app].
        change (spec (S (S (length er))) (NFor 0 i :: NElse j :: er)) with (j :: spec (S (length er)) er).
        f_equal. apply spec_fuel; cbn; lia.
      * destruct Hs as [-> ->]. cbn [skipn app]. rewrite Her. unfold S_. cbn [length spec rep_id app]. reflexivity.
      * exfalso. assert (H : In (NOther j) (elems r)) by (rewrite Her; left; reflexivity).
        unfold elems in H. apply filter_In in H. destruct H as [_ H]. discriminate.
      * destruct Hs as [-> ->]. cbn [skipn app]. rewrite Her. unfold S_. cbn [length spec rep_id app]. reflexivity.
    + fold (E r). rewrite IHr by lia. unfold S_. cbn [length spec]. reflexivity.
Qed.

(* ---- the specification read as the property states it ---- *)
Definition starts_no_else (post : list node) : Prop := match post with n :: _ => elseish n = false | [] => True end.
Lemma members_app ms post : forallb elseish ms = true -> starts_no_else post ->
  take_members (ms ++ post) = ms /\ drop_members (ms ++ post) = post.
Proof.
  induction ms as [|m ms IH]; cbn [app forallb]; intros Hm Hp.
  - destruct post as [|n r]; cbn in *; [auto|]. now rewrite Hp.
  - apply andb_true_iff in Hm. destruct Hm as [Hm1 Hm2]. cbn. rewrite Hm1. destruct (IH Hm2 Hp) as [-> ->]. auto.
Qed.
(* a chain renders exactly its first truthy member (the v-else when none is, nothing when there is
   none), once, and what follows the chain is rendered as if the chain were not there *)
Theorem spec_chain c i ms post : forallb elseish ms = true -> starts_no_else post ->
  S_ (NIf c i :: ms ++ post) = (if c then [i] else first_truthy ms) ++ S_ post.
Proof.
  intros Hm Hp. unfold S_. cbn [length spec]. destruct (members_app ms post Hm Hp) as [-> ->]. f_equal.
  apply spec_fuel; rewrite ?app_length; lia.
Qed.
Theorem spec_plain i r : S_ (NPlain i :: r) = i :: S_ r.
Proof. reflexivity. Qed.
Theorem spec_orphan n r : elseish n = true -> S_ (n :: r) = S_ r.
Proof. intro H. change (n :: r) with ([n] ++ r). apply S_orphans. cbn. now rewrite H. Qed.
(* first_truthy returns at most one member: the first truthy v-else-if, else the v-else *)
Lemma first_truthy_at_most_one ms : length (first_truthy ms) <= 1.
Proof. induction ms as [|[c i|c i|i|i|i|k i] r IH]; cbn; try lia. destruct c; cbn; lia. Qed.
(* a loop is not a chain member: it renders one instance per item and what follows is rendered as if the
   loop were not there; an empty loop hands over to a v-else that is the very next element, and to nothing else *)
Theorem spec_for_items n i r : S_ (NFor (S n) i :: r) = rep_id (S n) i ++ S_ r.
Proof. unfold S_. cbn [length]. change (spec (S (length r)) (NFor (S n) i :: r)) with (rep_id (S n) i ++ spec (length r) r). reflexivity. Qed.
Theorem spec_for_empty_else i j r : S_ (NFor 0 i :: NElse j :: r) = j :: S_ r.
Proof.
  unfold S_. cbn [length]. change (spec (S (S (length r))) (NFor 0 i :: NElse j :: r)) with (j :: spec (S (length r)) r).
  f_equal. apply spec_fuel; lia.
Qed.
Theorem spec_for_empty_other i r : match r with NElse _ :: _ => False | _ => True end -> S_ (NFor 0 i :: r) = S_ r.
Proof.
  intro H. unfold S_. cbn [length].
  assert (G : spec (S (length r)) (NFor 0 i :: r) = spec (length r) r).
  { destruct r as [|[c j|c j|j|j|j|k j] r']; try reflexivity. destruct H. }
  exact G.
Qed.

(* the walk that also records rendered text agrees with the walk on elements *)
Lemma elems_of_tagged (l : list id) : map snd (filter fst (map (pair true) l)) = l.
Proof. induction l as [|x l IH]; cbn; [reflexivity|now rewrite IH]. Qed.
Lemma evaluate_t_elements : forall fuel l, map snd (filter fst (evaluate_t fuel l)) = evaluate fuel l.
Proof.
  induction fuel as [|f IH]; intro l; [reflexivity|]. destruct l as [|n r]; [reflexivity|].
  destruct n as [c i | c i | i | i | i | k i]; cbn [evaluate_t evaluate].
  - destruct (chain c i r) as [out skip]. rewrite filter_app, map_app, elems_of_tagged, IH. reflexivity.
  - apply IH.
  - apply IH.
  - cbn. now rewrite IH.
  - cbn. apply IH.
  - destruct k as [|k].
    + destruct (for_else r 1) as [out skip]. rewrite filter_app, map_app, elems_of_tagged, IH. reflexivity.
    + rewrite filter_app, map_app, elems_of_tagged, IH. reflexivity.
Qed.
