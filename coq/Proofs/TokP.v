From V Require Import Base.Bytes Model.Escape Proofs.EscapeP Model.Tok.
Lemma run_app s a b :
  run s (a ++ b) = let '(s1, o1) := run s a in let '(s2, o2) := run s1 b in (s2, o1 ++ o2).
Proof.
  revert s. induction a as [|c a IH]; intros s; cbn [run app].
  - destruct (run s b); reflexivity.
  - destruct (step s c) as [s1 o1]. rewrite IH.
    destruct (run s1 a) as [s2 o2]. destruct (run s2 b) as [s3 o3].
    now rewrite app_assoc.
Qed.
Lemma run_cons s c r :
  run s (c :: r) = let '(s1, o1) := step s c in let '(s2, o2) := run s1 r in (s2, o1 ++ o2).
Proof. reflexivity. Qed.

(* ---- inertness of escaped data ---- *)
Lemma data_inert txt s : ~ In x3c s -> run (Data txt) s = (Data (txt ++ s), []).
Proof.
  revert txt. induction s as [|c s IH]; intros txt H; cbn [run].
  - now rewrite app_nil_r.
  - cbn [step]. rewrite beq_false by (intro E; apply H; left; auto).
    rewrite IH by (intro E; apply H; right; auto). now rewrite <- app_assoc.
Qed.
Theorem escape_text_inert txt s : run (Data txt) (escape s) = (Data (txt ++ escape s), []).
Proof. apply data_inert, escape_no; auto. Qed.

Lemma avdq_inert e n a an av s : ~ In x22 s ->
  run (AVdq e n a an av) s = (AVdq e n a an (av ++ s), []).
Proof.
  revert av. induction s as [|c s IH]; intros av H; cbn [run].
  - now rewrite app_nil_r.
  - cbn [step]. rewrite beq_false by (intro E; apply H; left; auto).
    rewrite IH by (intro E; apply H; right; auto). now rewrite <- app_assoc.
Qed.
Theorem escape_attr_inert e n a an av s :
  run (AVdq e n a an av) (escape s) = (AVdq e n a an (av ++ escape s), []).
Proof. apply avdq_inert, escape_no; auto. Qed.

Lemma namech_inv c : namech c = true -> (is_hws c || beq c x2f) = false /\ beq c x3e = false.
Proof. unfold namech. rewrite andb_true_iff, !negb_true_iff. tauto. Qed.
Lemma anamech_inv c : anamech c = true ->
  is_hws c = false /\ beq c x2f = false /\ beq c x3e = false /\ beq c x3d = false.
Proof.
  unfold anamech. rewrite andb_true_iff, negb_true_iff. intros [H1 H2].
  apply namech_inv in H1. destruct H1 as [H1 H3]. apply orb_false_iff in H1. tauto.
Qed.

Lemma tagname_run e n s : forallb namech s = true -> run (TagName e n) s = (TagName e (n ++ s), []).
Proof.
  revert n. induction s as [|c s IH]; intros n H; cbn [run].
  - now rewrite app_nil_r.
  - cbn [forallb] in H. apply andb_true_iff in H. destruct H as [Hc Hs].
    apply namech_inv in Hc. destruct Hc as [H1 H2].
    cbn [step]. rewrite H1, H2. rewrite IH by assumption. now rewrite <- app_assoc.
Qed.
Lemma attrn_run e n a an s : forallb anamech s = true ->
  run (AttrN e n a an) s = (AttrN e n a (an ++ s), []).
Proof.
  revert an. induction s as [|c s IH]; intros an H; cbn [run].
  - now rewrite app_nil_r.
  - cbn [forallb] in H. apply andb_true_iff in H. destruct H as [Hc Hs].
    apply anamech_inv in Hc. destruct Hc as (H1 & H2 & H3 & H4).
    cbn [step]. rewrite H1, H2, H3, H4. rewrite IH by assumption. now rewrite <- app_assoc.
Qed.

Lemma skel_app a b : skel (a ++ b) = skel a ++ skel b.
Proof. apply flat_map_app. Qed.
Lemma skel_emit_text t : skel (emit_text t) = [].
Proof. destruct t; reflexivity. Qed.

(* one attribute, starting either right after the tag name or after a quoted value *)
Definition attr_start (s : st) (e : bool) (n : bytes) (a : attrs) : Prop :=
  (s = TagName e n /\ a = []) \/ s = AfterAVq e n a.

Ltac red_tests :=
  cbv [is_hws];
  repeat match goal with
  | |- context[beq ?a ?b] =>
      let v := eval vm_compute in (beq a b) in
      match v with
      | true => change (beq a b) with true
      | false => change (beq a b) with false
      end
  end; cbn [orb andb negb]; cbv beta iota.
Ltac stp := rewrite run_cons; cbn [step].

Lemma attr_run s e n a kv : attr_start s e n a -> wf_key (fst kv) = true ->
  run s (ser_attr kv) = (AfterAVq e n (a ++ [(fst kv, escape (snd kv))]), []).
Proof.
  intros Hs Hk. destruct kv as [k v]. cbn [fst snd] in *. unfold ser_attr. cbn [fst snd].
  destruct k as [|c k]; [discriminate|]. cbn [wf_key] in Hk.
  apply andb_true_iff in Hk. destruct Hk as [Hc Hk].
  pose proof (anamech_inv _ Hc) as (H1 & H2 & H3 & H4).
  assert (Hsp : run s ([x20] ++ (c :: k) ++ [x3d; x22] ++ escape v ++ [x22]) =
                run (BeforeAN e n a) ((c :: k) ++ [x3d; x22] ++ escape v ++ [x22])).
  { destruct Hs as [[-> ->]| ->]; cbn [app]; stp; red_tests;
      destruct (run _ _); reflexivity. }
  rewrite Hsp. cbn [app]. stp. rewrite H1, H2, H3. cbn [orb]. cbv beta iota.
  rewrite run_app, attrn_run by assumption. cbv beta iota. cbn [app].
  stp. red_tests. stp. red_tests.
  rewrite run_app, escape_attr_inert. cbv beta iota. cbn [app]. stp. red_tests.
  cbn [run app]. reflexivity.
Qed.

Lemma attrs_run e n l : forall s a, attr_start s e n a ->
  forallb (fun kv => wf_key (fst kv)) l = true ->
  exists s', run s (ser_attrs l) = (s', []) /\
             attr_start s' e n (a ++ map (fun kv => (fst kv, escape (snd kv))) l).
Proof.
  induction l as [|kv l IH]; intros s a Hs Hw.
  - exists s. cbn. rewrite app_nil_r. auto.
  - cbn [forallb] in Hw. apply andb_true_iff in Hw. destruct Hw as [Hk Hw].
    unfold ser_attrs. cbn [flat_map]. fold (ser_attrs l).
    rewrite run_app, (attr_run s e n a kv Hs Hk).
    destruct (IH (AfterAVq e n (a ++ [(fst kv, escape (snd kv))])) (a ++ [(fst kv, escape (snd kv))]))
      as [s' [Hr Hs']]; [right; reflexivity|assumption|].
    rewrite Hr. exists s'. split; [reflexivity|].
    cbn [map]. now rewrite <- app_assoc in Hs'.
Qed.

Lemma close_run s e n a : attr_start s e n a -> run s [x3e] = (Data [], emit_tag e n a).
Proof.
  intros [[-> ->]| ->]; stp; red_tests; cbn [run]; rewrite ?app_nil_r; reflexivity.
Qed.

(* open tag from the data state *)
Lemma open_run txt t a : wf_tag t = true -> forallb (fun kv => wf_key (fst kv)) a = true ->
  exists out, run (Data txt) ([x3c] ++ t ++ ser_attrs a ++ [x3e]) = (Data [], out) /\
              skel out = [SStart t (map fst a)].
Proof.
  intros Ht Ha. destruct t as [|c t]; [discriminate|]. cbn [wf_tag] in Ht.
  apply andb_true_iff in Ht. destruct Ht as [Hc Ht].
  cbn [app]. stp. red_tests. stp. rewrite Hc. cbv beta iota.
  rewrite run_app, tagname_run by assumption. cbv beta iota. cbn [app].
  destruct (attrs_run false (c :: t) a (TagName false (c :: t)) []) as [s' [Hr Hs']];
    [left; auto|assumption|].
  rewrite run_app, Hr. cbv beta iota. rewrite (close_run _ _ _ _ Hs'). cbn [app].
  eexists. split; [reflexivity|].
  rewrite skel_app, skel_emit_text. cbn. rewrite map_map. cbn. rewrite ?app_nil_r.
  reflexivity.
Qed.

Lemma end_run txt t : wf_tag t = true ->
  exists out, run (Data txt) ([x3c; x2f] ++ t ++ [x3e]) = (Data [], out) /\ skel out = [SEnd t].
Proof.
  intros Ht. destruct t as [|c t]; [discriminate|]. cbn [wf_tag] in Ht.
  apply andb_true_iff in Ht. destruct Ht as [Hc Ht].
  cbn [app]. stp. red_tests. stp.
  assert (Hna : is_alpha x2f = false) by reflexivity. rewrite Hna. red_tests.
  stp. rewrite Hc. cbv beta iota.
  rewrite run_app, tagname_run by assumption. cbv beta iota. stp. red_tests. cbn [run].
  eexists. split; [reflexivity|].
  rewrite !skel_app, skel_emit_text. reflexivity.
Qed.

(* induction principle for the nested tree *)
Section NodeInd.
  Variable P : node -> Prop.
  Hypothesis HT : forall s, P (Text s).
  Hypothesis HE : forall t a k, Forall P k -> P (Elem t a k).
  Fixpoint node_ind' (n : node) : P n :=
    match n with
    | Text s => HT s
    | Elem t a k => HE t a k ((fix go (l : list node) : Forall P l :=
                                match l with [] => Forall_nil _ | x :: r => Forall_cons _ (node_ind' x) (go r) end) k)
    end.
End NodeInd.

Definition ok (n : node) : Prop := forall txt, wf n = true ->
  exists txt' out, run (Data txt) (ser n) = (Data txt', out) /\ skel out = dskel n.

Lemma kids_run k : Forall ok k -> forall txt, forallb wf k = true ->
  exists txt' out, run (Data txt) (flat_map ser k) = (Data txt', out) /\ skel out = flat_map dskel k.
Proof.
  induction 1 as [|n k Hn _ IH]; intros txt Hw.
  - exists txt, []. auto.
  - cbn [forallb] in Hw. apply andb_true_iff in Hw. destruct Hw as [Hwn Hwk].
    cbn [flat_map]. rewrite run_app.
    destruct (Hn txt Hwn) as (t1 & o1 & Hr1 & Hs1). rewrite Hr1.
    destruct (IH t1 Hwk) as (t2 & o2 & Hr2 & Hs2). rewrite Hr2.
    exists t2, (o1 ++ o2). split; [reflexivity|]. now rewrite skel_app, Hs1, Hs2.
Qed.

Theorem ser_skeleton : forall n, ok n.
Proof.
  induction n as [s | t a k IH] using node_ind'; intros txt Hw.
  - cbn [ser]. rewrite escape_text_inert. exists (txt ++ escape s), []. auto.
  - cbn [wf] in Hw. apply andb_true_iff in Hw. destruct Hw as [Hw Hk].
    apply andb_true_iff in Hw. destruct Hw as [Ht Ha].
    cbn [ser].
    replace ([x3c] ++ t ++ ser_attrs a ++ [x3e] ++ flat_map ser k ++ [x3c; x2f] ++ t ++ [x3e])
      with (([x3c] ++ t ++ ser_attrs a ++ [x3e]) ++ flat_map ser k ++ ([x3c; x2f] ++ t ++ [x3e]))
      by (rewrite <- !app_assoc; reflexivity).
    destruct (open_run txt t a Ht Ha) as (o1 & Hr1 & Hs1).
    destruct (kids_run k IH [] Hk) as (t2 & o2 & Hr2 & Hs2).
    destruct (end_run t2 t Ht) as (o3 & Hr3 & Hs3).
    rewrite run_app, Hr1, run_app, Hr2, Hr3.
    exists [], (o1 ++ o2 ++ o3). split; [reflexivity|].
    rewrite !skel_app, Hs1, Hs2, Hs3. reflexivity.
Qed.

(* the statement used by C01: whatever bytes sit in text nodes and attribute
   values, the tokenizer sees exactly the tree's elements and attribute names *)
Corollary ser_skeleton_top n : wf n = true ->
  skel (snd (run (Data []) (ser n))) = dskel n.
Proof.
  intro Hw. destruct (ser_skeleton n [] Hw) as (t & o & Hr & Hs). now rewrite Hr.
Qed.


Example hostile :
  let n := Elem (bs "a") [(bs "title", bs """><script>x</script>&amp;")] [Text (bs "</a><b>&lt;")] in
  skel (snd (run (Data []) (ser n))) = [SStart (bs "a") [bs "title"]; SEnd (bs "a")].
Proof. vm_compute. reflexivity. Qed.
