From Coq Require Import List Bool Arith Lia.
Import ListNotations.
From V Require Import Model.Conc.

Section P.
Variable guard : loc -> lock.
Notation disciplined := (disciplined guard).

Definition excl (s : state) : Prop :=
  forall t u l, t <> u -> has (l, true) (held s t) = true -> has_lock l (held s u) = false.
Definition disc (s : state) : Prop := forall t, disciplined (held s t) (prog s t) = true.

Lemma upd_same {A} (f : thread -> A) t v : upd f t v t = v.
Proof. unfold upd. now rewrite Nat.eqb_refl. Qed.
Lemma upd_other {A} (f : thread -> A) t v u : u <> t -> upd f t v u = f u.
Proof. unfold upd. intro H. apply Nat.eqb_neq in H. now rewrite H. Qed.

Lemma hold_eqb_spec a b : hold_eqb a b = true <-> a = b.
Proof.
  destruct a as [l w], b as [l' w']. unfold hold_eqb. cbn. rewrite andb_true_iff, Nat.eqb_eq. split.
  - intros [-> H]. apply Bool.eqb_prop in H. now subst.
  - intros [= -> ->]. split; [reflexivity|apply Bool.eqb_reflx].
Qed.
Lemma has_in h hs : has h hs = true <-> In h hs.
Proof.
  unfold has. rewrite existsb_exists. split.
  - intros [x [Hx E]]. apply hold_eqb_spec in E. now subst.
  - intro H. exists h. split; [assumption|now apply hold_eqb_spec].
Qed.
Lemma has_lock_in l hs : has_lock l hs = true <-> exists w, In (l, w) hs.
Proof.
  unfold has_lock. rewrite existsb_exists. split.
  - intros [[l' w] [Hx E]]. cbn in E. apply Nat.eqb_eq in E. subst. eauto.
  - intros [w H]. exists (l, w). split; [assumption|apply Nat.eqb_refl].
Qed.
Lemma remove1_incl h hs x : In x (remove1 h hs) -> In x hs.
Proof. induction hs as [|y r IH]; cbn; [auto|]. destruct (hold_eqb h y); cbn; intuition. Qed.
Lemma has_write_has_lock l hs : has (l, true) hs = true -> has_lock l hs = true.
Proof. rewrite has_in, has_lock_in. eauto. Qed.

Lemma step_inv s t s' : step s t s' -> excl s -> disc s -> excl s' /\ disc s'.
Proof.
  intros Hs He Hd. pose proof (Hd t) as Hdt.
  inversion Hs as [? ? l w r Hp Hf | ? ? l w r Hp | ? ? x r Hp | ? ? x r Hp]; subst;
    rewrite Hp in Hdt; cbn [Conc.disciplined] in Hdt; apply andb_true_iff in Hdt; destruct Hdt as [Hd1 Hdt].
  - split.
    + intros a b l0 Hab Hw. cbn [held prog] in *. destruct (Nat.eq_dec a t) as [->|Ha].
      * rewrite upd_same in Hw. rewrite upd_other by auto.
        apply has_in in Hw. destruct Hw as [Heq|Hw].
        -- injection Heq as Hl Hww. subst l0 w. specialize (Hf b). cbn in Hf. exact Hf.
        -- apply He with (t := t); auto. now apply has_in.
      * rewrite upd_other in Hw by auto. destruct (Nat.eq_dec b t) as [->|Hb].
        -- rewrite upd_same. destruct (has_lock l0 ((l, w) :: held s t)) eqn:E; [|reflexivity]. exfalso.
           apply has_lock_in in E. destruct E as [w' [Heq|Hin]].
           ++ injection Heq as Hl Hww. subst l0 w'. specialize (Hf a). destruct w; [|congruence].
              apply has_write_has_lock in Hw. congruence.
           ++ assert (Hh : has_lock l0 (held s t) = true) by (apply has_lock_in; eauto).
              rewrite (He a t l0) in Hh; auto; discriminate.
        -- rewrite upd_other by auto. apply He with (t := a); auto.
    + intro a. cbn [held prog]. destruct (Nat.eq_dec a t) as [->|Ha]; [now rewrite !upd_same|rewrite !upd_other by auto; apply Hd].
  - split.
    + intros a b l0 Hab Hw. cbn [held prog] in *. destruct (Nat.eq_dec a t) as [->|Ha].
      * rewrite upd_same in Hw. rewrite upd_other by auto. apply He with (t := t); auto.
        apply has_in. apply has_in in Hw. eapply remove1_incl; eauto.
      * rewrite upd_other in Hw by auto. destruct (Nat.eq_dec b t) as [->|Hb].
        -- rewrite upd_same. destruct (has_lock l0 (remove1 (l, w) (held s t))) eqn:E; [|reflexivity]. exfalso.
           apply has_lock_in in E. destruct E as [w' Hin]. apply remove1_incl in Hin.
           assert (Hh : has_lock l0 (held s t) = true) by (apply has_lock_in; eauto).
           rewrite (He a t l0) in Hh; auto; discriminate.
        -- rewrite upd_other by auto. apply He with (t := a); auto.
    + intro a. cbn [held prog]. destruct (Nat.eq_dec a t) as [->|Ha]; [now rewrite !upd_same|rewrite !upd_other by auto; apply Hd].
  - split; [exact He|].
    intro a. cbn [held prog]. destruct (Nat.eq_dec a t) as [->|Ha]; [now rewrite upd_same|rewrite upd_other by auto; apply Hd].
  - split; [exact He|].
    intro a. cbn [held prog]. destruct (Nat.eq_dec a t) as [->|Ha]; [now rewrite upd_same|rewrite upd_other by auto; apply Hd].
Qed.

Lemma not_racy s : excl s -> disc s -> ~ racy s.
Proof.
  intros He Hd (t & u & x & wt & wu & Htu & Ht & Hu & Hw).
  unfold next_access in *. pose proof (Hd t) as Dt. pose proof (Hd u) as Du.
  destruct (prog s t) as [|[| |xt|xt] rt]; try discriminate; destruct (prog s u) as [|[| |xu|xu] ru]; try discriminate;
    injection Ht as Hx1 Hw1; injection Hu as Hx2 Hw2; subst xt xu wt wu; cbn in Hw; try discriminate;
    cbn [Conc.disciplined] in Dt, Du; apply andb_true_iff in Dt, Du; destruct Dt as [Dt _], Du as [Du _].
  - (* read / write *) rewrite (He u t (guard x)) in Dt; auto; discriminate.
  - (* write / read *) rewrite (He t u (guard x)) in Du; auto; discriminate.
  - (* write / write *) apply has_write_has_lock in Du. rewrite (He t u (guard x)) in Du; auto; discriminate.
Qed.

Theorem lockset_sound (progs : thread -> list action) :
  (forall t, disciplined [] (progs t) = true) ->
  forall s, reach {| prog := progs; held := fun _ => [] |} s -> ~ racy s.
Proof.
  intros Hp s Hr. assert (H : excl s /\ disc s).
  { induction Hr as [|s t s' _ IH Hs].
    - split; [intros t u l _ Hw; cbn in Hw; discriminate|intro t; apply Hp].
    - destruct IH. eapply step_inv; eauto. }
  destruct H. now apply not_racy.
Qed.

(* a thread's program is any sequence of calls, each taking one of the table's paths *)
Lemma disciplined_app hs p q :
  disciplined hs (p ++ q) = disciplined hs p && disciplined (final hs p) q.
Proof.
  revert hs. induction p as [|a p IH]; intro hs; [reflexivity|].
  destruct a as [l w|l w|x|x]; cbn [app Conc.disciplined final]; rewrite IH, ?andb_assoc; reflexivity.
Qed.
Lemma final_app hs p q : final hs (p ++ q) = final (final hs p) q.
Proof. revert hs. induction p as [|a p IH]; intro hs; [reflexivity|]. destruct a; cbn [app final]; apply IH. Qed.
Lemma concat_ok (paths ps : list (list action)) :
  forallb (path_ok guard) paths = true -> incl ps paths ->
  disciplined [] (concat ps) = true /\ final [] (concat ps) = [].
Proof.
  intros Hall Hi. induction ps as [|p ps IH]; [split; reflexivity|].
  assert (Hp : path_ok guard p = true).
  { rewrite forallb_forall in Hall. apply Hall, Hi. now left. }
  unfold path_ok in Hp. apply andb_true_iff in Hp. destruct Hp as [Hd Hf].
  assert (Hf' : final [] p = []) by (destruct (final [] p); [reflexivity|discriminate]).
  destruct IH as [IHd IHf]; [intros x Hx; apply Hi; now right|].
  cbn [concat]. rewrite disciplined_app, final_app, Hd, Hf'. split; assumption.
Qed.

Theorem table_race_free (paths : list (list action)) :
  forallb (path_ok guard) paths = true ->
  forall progs : thread -> list action,
  (forall t, exists ps, incl ps paths /\ progs t = concat ps) ->
  forall s, reach {| prog := progs; held := fun _ => [] |} s -> ~ racy s.
Proof.
  intros Hall progs Hp. apply lockset_sound. intro t.
  destruct (Hp t) as (ps & Hi & ->). now apply (concat_ok paths ps Hall Hi).
Qed.
End P.
