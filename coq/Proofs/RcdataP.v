From V Require Import Base.Bytes Model.Escape Model.Tok Model.Rcdata Proofs.EscapeP.

Lemma to_N_inj a b : Byte.to_N a = Byte.to_N b -> a = b.
Proof. intro H. pose proof (Byte.of_to_N a) as Ha. pose proof (Byte.of_to_N b) as Hb. rewrite H in Ha. congruence. Qed.
Lemma lowerN_60 n : lowerN n = 60%N -> n = 60%N.
Proof. unfold lowerN. destruct ((65 <=? n) && (n <=? 90))%N eqn:E; [|auto]. apply andb_prop in E. destruct E as [E1 E2].
  apply N.leb_le in E1. intro H. lia. Qed.
Lemma beq_ci_lt c : beq_ci x3c c = true -> c = x3c.
Proof.
  unfold beq_ci. intro H. apply N.eqb_eq in H. change (lowerN (Byte.to_N x3c)) with 60%N in H.
  symmetry in H. apply lowerN_60 in H. apply to_N_inj. exact H.
Qed.
Lemma beq_ci_refl c : beq_ci c c = true.
Proof. unfold beq_ci. apply N.eqb_refl. Qed.
Lemma strip_ci_app p r : strip_ci p (p ++ r) = Some r.
Proof. induction p as [|a p IH]; cbn; [reflexivity|]. now rewrite beq_ci_refl. Qed.

Lemma closes_needs_lt tag c r : c <> x3c -> closes tag (c :: r) = false.
Proof.
  intro H. unfold closes. cbn [strip_ci]. destruct (beq_ci x3c c) eqn:E; [|reflexivity].
  apply beq_ci_lt in E. congruence.
Qed.
(* character data without "<" is all text and never closes the element *)
Theorem rc_no_lt tag s : ~ In x3c s -> rc_split tag s = (s, None).
Proof.
  induction s as [|c r IH]; intro H; [reflexivity|]. cbn [rc_split].
  rewrite closes_needs_lt by (intro E; apply H; left; congruence).
  rewrite IH by (intro E; apply H; right; exact E). reflexivity.
Qed.
Lemma closes_close_tag tag rest : closes tag (close_tag tag ++ rest) = true.
Proof.
  unfold closes, close_tag. replace (([x3c; x2f] ++ tag ++ [x3e]) ++ rest) with ((x3c :: x2f :: tag) ++ x3e :: rest).
  - rewrite strip_ci_app. now rewrite beq_refl, orb_true_r.
  - cbn. rewrite <- app_assoc. reflexivity.
Qed.
Theorem rc_no_lt_then_close tag s rest : ~ In x3c s ->
  rc_split tag (s ++ close_tag tag ++ rest) = (s, Some (close_tag tag ++ rest)).
Proof.
  induction s as [|c r IH]; intro H.
  - cbn [app]. pose proof (closes_close_tag tag rest) as Hc. unfold close_tag in *. cbn [app] in *.
    cbn [rc_split]. now rewrite Hc.
  - cbn [app rc_split]. rewrite closes_needs_lt by (intro E; apply H; left; congruence).
    rewrite IH by (intro E; apply H; right; exact E). reflexivity.
Qed.

(* 1. whatever a text node of <textarea> / <title> holds, its serialisation is read back as exactly that
      text, and the element ends at its own end tag, nowhere earlier *)
Theorem rc_escape_roundtrip tag t rest :
  rc_split tag (escape t ++ close_tag tag ++ rest) = (escape t, Some (close_tag tag ++ rest)) /\
  rc_text tag (escape t ++ close_tag tag ++ rest) = t.
Proof.
  assert (H : rc_split tag (escape t ++ close_tag tag ++ rest) = (escape t, Some (close_tag tag ++ rest))).
  { apply rc_no_lt_then_close. apply escape_no. now left. }
  split; [exact H|]. unfold rc_text. rewrite H. apply unescape_escape.
Qed.
(* 2. a value interpolated between static neighbours contributes its own characters to that one text *)
Theorem rc_value_between_neighbours tag a v b rest :
  rc_text tag (escape (a ++ v ++ b) ++ close_tag tag ++ rest) = a ++ v ++ b /\
  snd (rc_split tag (escape (a ++ v ++ b) ++ close_tag tag ++ rest)) = Some (close_tag tag ++ rest).
Proof. destruct (rc_escape_roundtrip tag (a ++ v ++ b) rest) as [H1 H2]. split; [exact H2|now rewrite H1]. Qed.
(* 3. the twin that writes such text as it is (as for script and style) lets a value end the element *)
Theorem rc_raw_text_breaks_out : exists tag v,
  fst (rc_split tag (v ++ close_tag tag)) <> v /\ rc_text tag (escape v ++ close_tag tag) = v.
Proof.
  exists (bs "textarea"), (bs "</TextArea ><img src=x>"). split; [vm_compute; discriminate|].
  apply (rc_escape_roundtrip (bs "textarea") _ []).
Qed.
