From V Require Import Base.Bytes Base.Val Model.Stack Model.Truthy Model.Interp Model.Route.

Lemma has_prefix_app p r : has_prefix p (p ++ r) = true.
Proof. unfold has_prefix. now rewrite strip_app. Qed.
Lemma contains_app p a b : contains p (a ++ p ++ b) = true.
Proof.
  induction a as [|c a IH]; cbn [app].
  - destruct (p ++ b) eqn:E; cbn [contains]; rewrite <- E, has_prefix_app; reflexivity.
  - cbn [contains]. rewrite IH. apply orb_true_r.
Qed.
Lemma has_prefix_in p s c : In c p -> has_prefix p s = true -> In c s.
Proof.
  unfold has_prefix. intros Hc H. destruct (strip p s) as [r|] eqn:E; [|discriminate].
  apply strip_Some in E. subst. apply in_or_app. now left.
Qed.
Lemma contains_in p s c : In c p -> contains p s = true -> In c s.
Proof.
  intros Hc. induction s as [|x s IH]; cbn [contains].
  - rewrite orb_false_r. intro H. eapply has_prefix_in; eauto.
  - intro H. apply orb_true_iff in H. destruct H as [H|H]; [eapply has_prefix_in; eauto|right; auto].
Qed.

(* the documented operators and the canonical printer: binary operators surrounded by single spaces *)
Inductive binop := Eq | Ne | Le | Ge | And | Or | Add | Sub | Mul | Div | Mod | Lt | Gt.
Definition opstr (o : binop) : bytes :=
  bs (match o with Eq => "==" | Ne => "!=" | Le => "<=" | Ge => ">=" | And => "&&" | Or => "||"
               | Add => "+" | Sub => "-" | Mul => "*" | Div => "/" | Mod => "%" | Lt => "<" | Gt => ">" end)%string.
Inductive expr := Path (p : bytes) | Bin (o : binop) (a b : expr) | Tern (c a b : expr).
Fixpoint print (e : expr) : bytes :=
  match e with
  | Path p => p
  | Bin o a b => print a ++ [x20] ++ opstr o ++ [x20] ++ print b
  | Tern c a b => print c ++ bs " ? " ++ print a ++ bs " : " ++ print b
  end.
Lemma complex_anywhere op s : In op ops_anywhere -> contains op s = true -> is_complex s = true.
Proof.
  intros Hi Hc. unfold is_complex. apply orb_true_iff. left. apply orb_true_iff. left. apply existsb_exists. eauto.
Qed.
Lemma complex_spaced op s : In op ops_spaced -> contains op s = true -> is_complex s = true.
Proof.
  intros Hi Hc. unfold is_complex. apply orb_true_iff. left. apply orb_true_iff. right. apply existsb_exists. eauto.
Qed.
Definition spaced (o : binop) : bytes := [x20] ++ opstr o ++ [x20].
Lemma print_bin o a b : print (Bin o a b) = print a ++ spaced o ++ print b.
Proof. cbn [print]. unfold spaced. now rewrite <- !app_assoc. Qed.
Lemma print_bin' o a b : print (Bin o a b) = (print a ++ [x20]) ++ opstr o ++ ([x20] ++ print b).
Proof. cbn [print]. now rewrite <- !app_assoc. Qed.
Theorem binary_is_complex o a b : is_complex (print (Bin o a b)) = true.
Proof.
  destruct o.
  1-6: rewrite print_bin'; eapply complex_anywhere; [|apply contains_app]; cbn; auto 10.
  all: rewrite print_bin; eapply complex_spaced; [|apply contains_app]; cbn; auto 10.
Qed.
Theorem ternary_is_complex c a b : is_complex (print (Tern c a b)) = true.
Proof.
  unfold is_complex. apply orb_true_iff. right. apply andb_true_iff. split; apply mem_byte_In; cbn [print];
  rewrite !in_app_iff; cbn; tauto.
Qed.
(* a plain dotted path is never classified complex, never a function call, never a pipe *)
Definition pathch (c : byte) : bool := negb (existsb (beq c) (bs "=!<>&|+-*/%?: ()")).
Lemma not_contains op s : (exists c, In c op /\ existsb (beq c) (bs "=!<>&|+-*/%?: ()") = true) ->
  forallb pathch s = true -> contains op s = false.
Proof.
  intros [c [Hc Hbad]] Hs. destruct (contains op s) eqn:E; [|reflexivity]. exfalso.
  pose proof (contains_in op s c Hc E) as Hin.
  rewrite forallb_forall in Hs. specialize (Hs c Hin). unfold pathch in Hs. rewrite Hbad in Hs. discriminate.
Qed.
Lemma not_mem c s : existsb (beq c) (bs "=!<>&|+-*/%?: ()") = true -> forallb pathch s = true -> mem_byte c s = false.
Proof.
  intros Hbad Hs. destruct (mem_byte c s) eqn:E; [|reflexivity]. apply mem_byte_In in E.
  rewrite forallb_forall in Hs. specialize (Hs c E). unfold pathch in Hs. rewrite Hbad in Hs. discriminate.
Qed.
Theorem path_not_complex p : forallb pathch p = true -> is_complex p = false.
Proof.
  intro Hp. unfold is_complex, ops_anywhere, ops_spaced. cbn [existsb].
  repeat match goal with
  | |- context[contains ?op p] =>
      replace (contains op p) with false
        by (symmetry; apply not_contains; [eexists; split; [left; reflexivity|reflexivity]|assumption])
  end.
  rewrite (not_mem x3f p eq_refl Hp). reflexivity.
Qed.
Theorem path_not_pipe p : forallb pathch p = true -> mem_byte x7c p = false.
Proof. apply not_mem. reflexivity. Qed.
Lemma fn_call_scan_no_paren s : forall first, mem_byte x28 s = false -> fn_call_scan first s = false.
Proof.
  induction s as [|c r IH]; intros first H; cbn; [reflexivity|]. unfold mem_byte in H. cbn in H.
  apply orb_false_elim in H. destruct H as [Hc Hr]. assert (beq c x28 = false) as ->.
  { destruct (beq_spec c x28) as [->|]; [now rewrite beq_refl in Hc|reflexivity]. }
  destruct (ident_char first c); [now apply IH|reflexivity].
Qed.
Lemma trim_subset s c : In c (trim s) -> In c s.
Proof.
  unfold trim. intro H. apply in_rev in H.
  assert (D : forall l x, In x (drop_ws l) -> In x l).
  { induction l as [|y l IHl]; cbn; [tauto|]. destruct (is_ws y); [intros x Hx; right; auto|auto]. }
  apply D in H. apply in_rev in H. now apply D in H.
Qed.
Theorem path_not_function_call p : forallb pathch p = true -> is_function_call p = false.
Proof.
  intro Hp. unfold is_function_call. apply fn_call_scan_no_paren.
  destruct (mem_byte x28 (trim p)) eqn:E; [|reflexivity]. apply mem_byte_In in E. apply trim_subset in E.
  apply mem_byte_In in E. now rewrite (not_mem x28 p eq_refl Hp) in E.
Qed.

Section Agree.
Variable X : bytes -> stack -> option val -> xres.
Variable call : bytes -> list val -> option xres.
Variable s : stack.
(* what the property's "conventional evaluation" means for the routing theorem: on a plain path the
   expression evaluator returns what Stack.Resolve returns (checked by the positions stream) *)
Definition X_path : Prop := forall p, forallb pathch p = true -> trim p = p -> normalize_cmp p = p ->
  X p s None = XVal (match resolve s p with Some v => v | None => VNil end).
Definition nil_to_empty (v : val) : val := match v with VNil => VStr [] | x => x end.

(* 1. a canonical operator expression is handed, whole, to the expression evaluator at every position *)
Theorem complex_routes_to_X e : is_complex (trim e) = true -> is_complex e = true ->
  value_interp X call s e = X (trim e) s None /\ value_bound X call s e = X (trim e) s None.
Proof.
  intros Ht He. unfold value_interp, value_bound, routed_to_pipe. rewrite He, !orb_true_r.
  unfold parse_pipe. rewrite Ht. cbn. destruct (X (trim e) s None); split; reflexivity.
Qed.
Theorem complex_condition_by_X e v : X (normalize_cmp (trim e)) s None = XVal v -> cond_if X s e = truthy v.
Proof. intro H. unfold cond_if. now rewrite H. Qed.
Theorem complex_show_by_X e v : X e s None = XVal v -> cond_show X s e = truthy v.
Proof. intro H. unfold cond_show. now rewrite H. Qed.
(* 2. a plain path means the same at every position: the resolved value ({{ }} prints nothing for nil and
   undefined, a bound attribute is omitted, conditions are false) *)
Theorem path_agree p : X_path -> forallb pathch p = true -> trim p = p -> normalize_cmp p = p ->
  let v := match resolve s p with Some v => v | None => VNil end in
  value_interp X call s p = XVal v /\ truthy (match value_bound X call s p with XVal w => w | XErr _ => VNil end) = truthy v /\
  cond_if X s p = truthy v /\ cond_show X s p = truthy v.
Proof.
  intros HX Hp Ht Hn. cbn zeta.
  assert (R : routed_to_pipe p = false).
  { unfold routed_to_pipe. now rewrite (path_not_pipe p Hp), (path_not_function_call p Hp), (path_not_complex p Hp). }
  unfold value_interp, value_bound, cond_if, cond_show. rewrite R, Ht, Hn, (HX p Hp Ht Hn).
  repeat split. destruct (resolve s p); reflexivity.
Qed.
(* 3. pipes: x | f1 | ... | fn(args) applies the registered functions left to right, the piped value first *)
Fixpoint apply_chain (fs : list (bytes * list bytes)) (v : val) : xres :=
  match fs with
  | [] => XVal v
  | (f, args) :: r => match eval_filter call s f args (Some v) true with XVal v' => apply_chain r v' | e => e end
  end.
Theorem pipe_left_to_right x fs v : x <> [] -> resolve s x = Some v ->
  eval_pipe X call s {| p_initial := x; p_segs := map (fun fa => SFilter (fst fa) (snd fa)) fs |} = apply_chain fs v.
Proof.
  intros Hx Hr. unfold eval_pipe. cbn [p_initial p_segs]. destruct x as [|c r]; [congruence|]. rewrite Hr.
  clear. revert v. induction fs as [|[f args] rest IH]; intro v; cbn; [reflexivity|].
  destruct (eval_filter call s f args (Some v) true); [apply IH|reflexivity].
Qed.
(* 3b. a call at the head of a pipe, g(args) | f1 | ... | fn: g is called with its arguments alone (no piped value),
   and the rest is applied left to right to its result *)
Theorem head_call_left_to_right g gargs fs :
  eval_pipe X call s {| p_initial := []; p_segs := SFilter g gargs :: map (fun fa => SFilter (fst fa) (snd fa)) fs |} =
  match eval_filter call s g gargs None false with XVal v => apply_chain fs v | e => e end.
Proof.
  unfold eval_pipe. cbn [p_initial p_segs eval_segment]. destruct (eval_filter call s g gargs None false) as [v|e]; [|reflexivity].
  revert v. induction fs as [|[f args] rest IH]; intro v; cbn; [reflexivity|].
  destruct (eval_filter call s f args (Some v) true); [apply IH|reflexivity].
Qed.
(* 4. an unknown function, and an error inside a function, are errors that name the function *)
Theorem unknown_function_named f args (input : option val) (w : bool) : call f ((if w then [match input with Some v => v | None => VNil end] else []) ++ map (resolve_argument s) args) = None ->
  eval_filter call s f args input w = XErr (Some f).
Proof. intro H. unfold eval_filter. now rewrite H. Qed.
Theorem function_error_named f args (input : option val) (w : bool) e : call f ((if w then [match input with Some v => v | None => VNil end] else []) ++ map (resolve_argument s) args) = Some (XErr e) ->
  eval_filter call s f args input w = XErr (Some f).
Proof. intro H. unfold eval_filter. now rewrite H. Qed.
End Agree.

(* ---- string-literal arguments ---- *)
(* inside a quoted argument everything up to the matching quote is copied: the other kind of quote, commas,
   parentheses and pipes belong to the literal; the quotes themselves stay on the argument *)
Lemma parse_args_quoted_body : forall body qc rest cur,
  ~ In qc body ->
  parse_args_go (body ++ qc :: rest) (Some qc) cur = parse_args_go rest None (qc :: rev body ++ cur).
Proof.
  induction body as [|c body IH]; intros qc rest cur Hn; cbn [app parse_args_go rev].
  - now rewrite beq_refl.
  - assert (Hc : beq c qc = false).
    { destruct (beq c qc) eqn:E; [|reflexivity]. apply beq_true in E. exfalso. apply Hn. left. now symmetry. }
    rewrite Hc. rewrite IH by (intro H; apply Hn; now right). now rewrite <- app_assoc.
Qed.
Theorem parse_args_string_literal : forall qc body rest cur,
  (qc = x22 \/ qc = x27) -> ~ In qc body ->
  parse_args_go (qc :: body ++ qc :: rest) None cur = parse_args_go rest None (qc :: rev body ++ qc :: cur).
Proof.
  intros qc body rest cur Hq Hn. cbn [parse_args_go].
  assert (E : beq qc x22 || beq qc x27 = true) by (destruct Hq as [-> | ->]; reflexivity).
  rewrite E. now apply parse_args_quoted_body.
Qed.
Lemma trim_quoted qc body : (qc = x22 \/ qc = x27) -> trim (qc :: body ++ [qc]) = qc :: body ++ [qc].
Proof.
  intro Hq. assert (Hw : is_ws qc = false) by (destruct Hq as [-> | ->]; reflexivity).
  unfold trim. cbn [drop_ws]. rewrite Hw.
  change (qc :: body ++ [qc]) with ((qc :: body) ++ [qc]). rewrite rev_app_distr. cbn [rev app drop_ws]. rewrite Hw.
  change (qc :: rev body ++ [qc]) with (rev [qc] ++ rev (qc :: body)).
  rewrite <- rev_app_distr, rev_involutive. reflexivity.
Qed.
(* a single quoted argument is the literal with its quotes, whatever else it contains *)
Corollary parse_args_one_literal : forall qc body,
  (qc = x22 \/ qc = x27) -> ~ In qc body ->
  parse_args_go (qc :: body ++ [qc]) None [] = [qc :: body ++ [qc]].
Proof.
  intros qc body Hq Hn. rewrite (parse_args_string_literal qc body [] [] Hq Hn). cbn [parse_args_go].
  replace (rev (qc :: rev body ++ [qc])) with (qc :: body ++ [qc]).
  - now rewrite trim_quoted.
  - change (qc :: rev body ++ [qc]) with ((qc :: rev body) ++ [qc]). rewrite rev_app_distr. cbn [rev app].
    now rewrite rev_involutive.
Qed.
(* ... and resolveArgument gives exactly the text between the quotes as a string: no number, boolean or variable
   is read out of it, and blanks inside the quotes stay *)
Lemma resolve_quoted s qc body : (qc = x22 \/ qc = x27) -> resolve_argument s (qc :: body ++ [qc]) = VStr body.
Proof.
  intro Hq. unfold resolve_argument. rewrite (trim_quoted qc body Hq).
  rewrite rev_app_distr. cbn [rev app].
  assert (E : (beq qc x22 && beq qc x22) || (beq qc x27 && beq qc x27) = true) by (destruct Hq as [-> | ->]; reflexivity).
  rewrite E. now rewrite rev_involutive.
Qed.
Theorem string_literal_value s qc body : (qc = x22 \/ qc = x27) -> ~ In qc body ->
  map (resolve_argument s) (parse_args_go (qc :: body ++ [qc]) None []) = [VStr body].
Proof. intros Hq Hn. rewrite (parse_args_one_literal qc body Hq Hn). cbn [map]. now rewrite resolve_quoted. Qed.
