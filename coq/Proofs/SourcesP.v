From V Require Import Base.Bytes Base.Obs Base.Val Model.Stack Model.Truthy Model.Loops Model.Include Model.Sources
  Proofs.StackP Proofs.IncludeP.

Definition orelse (a b : option val) : option val := match a with Some v => Some v | None => b end.
Notation "a <|> b" := (orelse a b) (at level 60, right associativity).
Definition vis (s : stack) (k : bytes) : option val := assocb k (envmap s).

(* every scope the code builds by writing keys one at a time has unique keys *)
Lemma in_keys_put {A} (m : list (bytes * A)) k v x : In x (map fst (put m k v)) -> x = k \/ In x (map fst m).
Proof.
  induction m as [|[a b] r IH]; cbn; [intros [<-|[]]; now left|].
  destruct (bytes_eqb_spec a k) as [->|Hne]; cbn; [tauto|]. intros [<-|H]; [right; now left|]. destruct (IH H); auto.
Qed.
Lemma uniq_put m k v : uniq m -> uniq (put m k v).
Proof.
  unfold uniq. induction m as [|[a b] r IH]; cbn; intro H; [constructor; [intros []|constructor]|].
  inversion H as [|? ? Hn Hr]; subst. destruct (bytes_eqb_spec a k) as [->|Hne]; cbn; [constructor; assumption|].
  constructor; [|now apply IH]. intro Hin. destruct (in_keys_put r k v a Hin); [congruence|auto].
Qed.
Lemma uniq_overlay top : forall base, uniq base -> uniq (overlay base top).
Proof. unfold overlay. induction top as [|[k v] r IH]; intros base H; cbn; [exact H|]. apply IH. now apply uniq_put. Qed.
Lemma uniq_nil : uniq [].
Proof. constructor. Qed.
Lemma uniq_merged ss : uniq (merged ss).
Proof. unfold merged. induction ss as [|m r IH]; cbn; [apply uniq_nil|]. now apply uniq_overlay. Qed.
Lemma uniq_fill_unbound r : forall m, uniq m -> uniq (fill_unbound m r).
Proof.
  unfold fill_unbound. induction r as [|[k v] r IH]; intros m H; cbn; [exact H|].
  destruct (assocb k m); apply IH; [exact H|now apply uniq_put].
Qed.
Lemma uniq_envmap s : uniq (envmap s).
Proof. unfold envmap. apply uniq_fill_unbound, uniq_merged. Qed.

(* stacks with a single scope: what a template's stack is at every point of a New/Load/Fill/Assign history *)
Definition single (s : stack) : Prop := exists m, scopes s = [m] /\ uniq m.
Lemma vis_single s m k : scopes s = [m] -> uniq m ->
  vis s k = assocb k m <|> assocb k (root_fields (root s)).
Proof.
  intros Hs Hu. unfold vis. rewrite envmap_spec by (rewrite Hs; repeat constructor; exact Hu). rewrite Hs. cbn.
  destruct (assocb k m); reflexivity.
Qed.
Lemma single_set s a v : single s -> single (set s a v).
Proof. intros (m & Hs & Hu). exists (put m a v). unfold set. rewrite Hs. cbn. split; [reflexivity|now apply uniq_put]. Qed.
Lemma vis_set s a v k : single s -> vis (set s a v) k = if bytes_eqb a k then Some v else vis s k.
Proof.
  intros (m & Hs & Hu). rewrite (vis_single (set s a v) (put m a v) k), (vis_single s m k Hs Hu).
  - unfold set. rewrite Hs. cbn [root]. destruct (bytes_eqb_spec a k) as [->|Hne].
    + now rewrite assocb_put_same.
    + rewrite assocb_put_other by congruence. reflexivity.
  - unfold set. now rewrite Hs.
  - now apply uniq_put.
Qed.
Lemma single_copy s : single (copy s).
Proof. exists (envmap s). split; [reflexivity|apply uniq_envmap]. Qed.
Lemma vis_copy s k : Forall uniq (scopes s) -> vis (copy s) k = vis s k.
Proof.
  intro Hu. rewrite (vis_single (copy s) (envmap s) k eq_refl (uniq_envmap s)). unfold vis. cbn [root copy].
  destruct (assocb k (envmap s)) eqn:E; [reflexivity|]. cbn.
  rewrite envmap_spec in E by assumption. destruct (look (scopes s) k); [discriminate|exact E].
Qed.
Lemma single_uniq s : single s -> Forall uniq (scopes s).
Proof. intros (m & Hs & Hu). rewrite Hs. repeat constructor. exact Hu. Qed.
Lemma single_set_all m : forall s, single s -> single (set_all s m).
Proof. unfold set_all. induction m as [|[k v] r IH]; intros s H; cbn; [exact H|]. apply IH. now apply single_set. Qed.
Lemma vis_set_all m : forall s k, single s -> vis (set_all s m) k = assocb k (rev m) <|> vis s k.
Proof.
  unfold set_all. induction m as [|[a b] r IH]; intros s k H; cbn [fold_left rev]; [reflexivity|].
  rewrite IH by now apply single_set. rewrite assocb_app. cbn. destruct (assocb k (rev r)); cbn; [reflexivity|].
  rewrite vis_set by assumption. destruct (bytes_eqb a k); reflexivity.
Qed.
Definition assigns (t : tmpl) (l : scope) : tmpl := fold_left (fun acc kv => t_assign (fst kv) (snd kv) acc) l t.
Lemma assigns_stack l : forall t, t_stack (assigns t l) = set_all (t_stack t) l.
Proof. unfold assigns, set_all. induction l as [|[k v] r IH]; intro t; cbn; [reflexivity|]. now rewrite IH. Qed.
Lemma assigns_fm l : forall t, t_fm (assigns t l) = t_fm t /\ t_file (assigns t l) = t_file t.
Proof. unfold assigns. induction l as [|[k v] r IH]; intro t; cbn; [auto|]. destruct (IH (t_assign k v t)). auto. Qed.

(* the engine's configuration: the last data file defining a key wins, then theme.yml *)
Fixpoint last_wins (dfs : list scope) (k : bytes) : option val :=
  match dfs with [] => None | f :: r => last_wins r k <|> assocb k (rev f) end.
Lemma config_spec e k : assocb k (config e) = last_wins (e_datafiles e) k <|> assocb k (rev (e_theme e)).
Proof.
  unfold config. assert (H : assocb k (overlay [] (e_theme e)) = assocb k (rev (e_theme e))).
  { rewrite assocb_overlay. destruct (assocb k (rev (e_theme e))); reflexivity. }
  rewrite <- H. generalize (overlay [] (e_theme e)). induction (e_datafiles e) as [|f r IH]; intro th; cbn; [reflexivity|].
  rewrite IH, assocb_overlay. destruct (last_wins r k); cbn; [reflexivity|]. destruct (assocb k (rev f)); reflexivity.
Qed.
Lemma uniq_config e : uniq (config e).
Proof.
  unfold config. assert (H : uniq (overlay [] (e_theme e))) by (apply uniq_overlay, uniq_nil).
  revert H. generalize (overlay [] (e_theme e)). induction (e_datafiles e) as [|f r IH]; intros th H; cbn; [exact H|].
  apply IH. now apply uniq_overlay.
Qed.

(* the render's own re-merge: the file's (cached) front-matter over the template's merged environment *)
Lemma lookup_render_file e t f k : t_file t = Some f ->
  lookup (render_stack e t) k =
  assocb k (rev (match assocb f (e_files e) with Some m => m | None => [] end)) <|> vis (t_stack t) k.
Proof.
  intro Hf. unfold render_stack. rewrite Hf.
  set (fm := match assocb f (e_files e) with Some m => m | None => [] end).
  set (m2 := overlay (envmap (t_stack t)) fm).
  assert (Hl : lookup {| scopes := [m2]; root := VMap m2 |} k = assocb k m2).
  { unfold lookup. cbn [scopes look root]. destruct (assocb k m2) eqn:E; [reflexivity|].
    destruct k as [|c r]; [reflexivity|]. cbn [resolve_value]. exact E. }
  rewrite Hl. unfold m2. rewrite assocb_overlay. unfold orelse, vis, fm. reflexivity.
Qed.

(* C08: the value a rendered file sees for a key, after Fill(map) and Assigns on the base template,
   Load of the file and further Assigns on the loaded template *)
Theorem visible_value e m a1 f a2 k :
  let fm := match assocb f (e_files e) with Some x => x | None => [] end in
  let t := assigns (t_load e f (assigns (t_fill e (VMap m) (base e)) a1)) a2 in
  lookup (render_stack e t) k =
  assocb k (rev fm) <|> assocb k (rev a2) <|> assocb k (rev a1) <|> assocb k (rev m)
  <|> last_wins (e_datafiles e) k <|> assocb k (rev (e_theme e)).
Proof.
  cbn zeta. set (fm := match assocb f (e_files e) with Some x => x | None => [] end).
  set (t1 := t_fill e (VMap m) (base e)). set (t2 := assigns t1 a1). set (t3 := t_load e f t2).
  assert (S1 : single (t_stack t1)).
  { eexists. split; [reflexivity|]. repeat apply uniq_overlay. apply uniq_nil. }
  assert (S2 : single (t_stack t2)) by (unfold t2; rewrite assigns_stack; now apply single_set_all).
  assert (S3 : single (t_stack t3)) by (unfold t3, t_load; cbn [t_stack]; apply single_set_all, single_copy).
  assert (F3 : t_file (assigns t3 a2) = Some f) by (destruct (assigns_fm a2 t3) as [_ ->]; reflexivity).
  rewrite (lookup_render_file e _ f k F3). fold fm. rewrite assigns_stack, vis_set_all by assumption.
  unfold t3, t_load. cbn [t_stack]. fold fm. rewrite vis_set_all by apply single_copy.
  rewrite vis_copy by now apply single_uniq.
  unfold t2. rewrite assigns_stack, vis_set_all by assumption.
  unfold t1, t_fill. cbn [t_stack t_fm base].
  match goal with |- context [vis {| scopes := [?X]; root := ?r |} k] =>
    rewrite (vis_single {| scopes := [X]; root := r |} X k eq_refl) by (repeat apply uniq_overlay; apply uniq_nil) end.
  cbn [root root_fields deref]. rewrite !assocb_overlay. cbn [rev assocb data_map to_env].
  rewrite (assocb_rev_uniq (config e) k (uniq_config e)), config_spec.
  unfold fm, orelse. clear. destruct (assocb f (e_files e)) as [x|]; lazy beta iota;
  [destruct (assocb k (rev x)); [reflexivity|] | change (assocb k (rev (@nil (bytes * val)))) with (@None val); lazy beta iota].
  all: destruct (assocb k (rev a2)); [reflexivity|].
  all: destruct (assocb k (rev a1)); [reflexivity|].
  all: destruct (assocb k (rev m)) eqn:Em; [reflexivity|].
  all: destruct (last_wins (e_datafiles e) k); [reflexivity|].
  all: destruct (assocb k (rev (e_theme e))); [reflexivity|].
  all: clear -Em; induction m as [|[a b] r IH]; [reflexivity|]; cbn in *; rewrite assocb_app in Em; cbn in Em;
    destruct (assocb k (rev r)) eqn:E1; [discriminate|]; destruct (bytes_eqb a k); [discriminate|]; now apply IH.
Qed.

(* a template made with New / Load never changes what its parent or siblings see: an operation
   leaves every template other than the one it is addressed to exactly as it was *)
Definition target (o : op) : option nat := match o with OFill i _ | OAssign i _ _ => Some i | _ => None end.
Theorem tree_independence e keys st o j : j < length st -> target o <> Some j ->
  nth_error (fst (step e keys st o)) j = nth_error st j.
Proof.
  intros Hj Ht.
  assert (Hupd : forall (x : tmpl) n, j <> n -> nth_error (upd st n x) j = nth_error st j).
  { intros x. clear Ht. revert j Hj. induction st as [|y r IH]; intros j Hj n Hn; [reflexivity|].
    destruct n, j; cbn in *; try reflexivity; try congruence. apply IH; lia. }
  destruct o as [n|n f|n d|n k v|n k|n|n]; cbn [step fst]; try reflexivity.
  - now apply nth_error_app1.
  - now apply nth_error_app1.
  - apply Hupd. cbn in Ht. congruence.
  - apply Hupd. cbn in Ht. congruence.
Qed.
(* the same rule at every read position: {{ }}, bound attributes (both Lookup) and expressions (the
   merged environment) agree on every name of a render stack *)
Theorem read_paths_agree e t f k : t_file t = Some f -> k <> [] ->
  vis (render_stack e t) k = lookup (render_stack e t) k.
Proof.
  intros Hf Hk. unfold render_stack. rewrite Hf.
  set (m2 := overlay (envmap (t_stack t)) (match assocb f (e_files e) with Some m => m | None => [] end)).
  assert (Hu : uniq m2) by (apply uniq_overlay, uniq_envmap).
  rewrite (vis_single {| scopes := [m2]; root := VMap m2 |} m2 k eq_refl Hu). unfold lookup. cbn [scopes look root root_fields deref].
  destruct (assocb k m2) eqn:E; [reflexivity|]. cbn. destruct k; [congruence|]. cbn [resolve_value]. now rewrite E.
Qed.
