From V Require Import Base.Bytes Base.Obs Base.Val Model.Stack Model.Truthy Model.Loops Model.Include Proofs.StackP.

Lemma scopes_set_all m : forall s, scopes s <> [] -> scopes (set_all s m) <> [].
Proof.
  unfold set_all. induction m as [|[k v] r IH]; intros s H; cbn; [exact H|]. apply IH. unfold set. destruct (scopes s); cbn; discriminate.
Qed.
Lemma set_keeps_lower s k v top tl : scopes s = top :: tl -> exists top', scopes (set s k v) = top' :: tl /\ root (set s k v) = root s.
Proof. intro H. unfold set. rewrite H. cbn. eauto. Qed.
Lemma set_all_keeps_lower m : forall s top tl, scopes s = top :: tl ->
  exists top', scopes (set_all s m) = top' :: tl /\ root (set_all s m) = root s.
Proof.
  unfold set_all. induction m as [|[k v] r IH]; intros s top tl H; cbn; [eauto|].
  destruct (set_keeps_lower s k v top tl H) as (t1 & H1 & R1). destruct (IH _ _ _ H1) as (t2 & H2 & R2).
  exists t2. split; [exact H2|congruence].
Qed.
(* push props, write front-matter, ..., pop: the includer's stack is exactly what it was *)
Lemma pop_after_include s vars fm : scopes s <> [] -> pop (set_all (push s vars) fm) = s.
Proof.
  intro H. destruct (set_all_keeps_lower fm (push s vars) vars (scopes s) eq_refl) as (t & Hs & Hr).
  unfold pop. rewrite Hs. destruct s as [sc rt]. cbn in *. destruct sc as [|a b]; [congruence|]. now rewrite Hr.
Qed.

(* 2. nothing leaks: a successful evaluation hands back the stack it was given *)
Theorem include_no_leak w : forall fuel s t o s', scopes s <> [] -> eval w fuel s t = Ok (o, s') -> s' = s.
Proof.
  induction fuel as [|fu IH]; intros s t o s' Hs H; [discriminate|].
  assert (Hinc : forall file props next,
    match assocb file w with
    | None => Err (EMissing file)
    | Some c =>
        let s1 := set_all (push s (eval_props s props)) (c_fm c) in
        match (if c_wrapper c then first_missing (envmap s1) (c_required c) else None) with
        | Some n => Err (ERequired n)
        | None => match eval w fu s1 (c_body c) with
                  | Err e => Err e
                  | Ok (o, s2) => match eval w fu (pop s2) next with Err e => Err e | Ok (o', s3) => Ok (o ++ o', s3) end
                  end
        end
    end = Ok (o, s') -> s' = s).
  { intros file props next Hi. destruct (assocb file w) as [c|]; [|discriminate]. cbn zeta in Hi.
    set (s1 := set_all (push s (eval_props s props)) (c_fm c)) in *.
    destruct (if c_wrapper c then first_missing (envmap s1) (c_required c) else None); [discriminate|].
    destruct (eval w fu s1 (c_body c)) as [[o1 s2]|] eqn:E1; [|discriminate].
    assert (Hs1 : scopes s1 <> []) by (apply scopes_set_all; cbn; discriminate).
    assert (s2 = s1) by (eapply IH; eauto). subst s2.
    assert (Hp : pop s1 = s) by (apply pop_after_include; exact Hs). rewrite Hp in Hi.
    destruct (eval w fu s next) as [[o2 s3]|] eqn:E2; [|discriminate]. injection Hi as _ <-. eapply IH; eauto. }
  destruct t as [|id ws next|file props next|tag props next]; cbn [eval] in H.
  - now injection H as _ <-.
  - destruct (eval w fu s next) as [[o1 s1]|] eqn:E; [|discriminate]. injection H as _ <-. eapply IH; eauto.
  - now apply (Hinc file props next).
  - destruct (file_of_tag w tag) as [file|]; [|discriminate]. now apply (Hinc file props next).
Qed.

(* 1. inside the component: front-matter, then the include's attributes, then the includer's variables *)
Lemma lookup_set_all m : forall s k,
  lookup (set_all s m) k = match assocb k (rev m) with Some v => Some v | None => lookup s k end.
Proof.
  unfold set_all. induction m as [|[a b] r IH]; intros s k; cbn [fold_left rev]; [reflexivity|].
  rewrite IH, assocb_app. cbn. destruct (assocb k (rev r)); [reflexivity|].
  destruct (bytes_eqb_spec a k) as [->|Hne]; [apply set_then_lookup|apply set_other; congruence].
Qed.
Theorem include_scope s vars fm k :
  lookup (set_all (push s vars) fm) k =
  match assocb k (rev fm) with
  | Some v => Some v
  | None => match assocb k vars with Some v => Some v | None => lookup s k end
  end.
Proof. rewrite lookup_set_all. destruct (assocb k (rev fm)); [reflexivity|apply lookup_innermost]. Qed.

(* 3. :required *)
Lemma first_missing_none env req : first_missing env req = None <-> Forall (fun n => assocb n env <> None) req.
Proof.
  induction req as [|n r IH]; cbn; [split; [constructor|reflexivity]|].
  destruct (assocb n env) eqn:E.
  - rewrite IH. split; [intro H; constructor; [congruence|exact H]|intro H; now inversion H].
  - split; [discriminate|]. intro H. inversion H as [|? ? H1 H2]. congruence.
Qed.
Lemma first_missing_some env req n : first_missing env req = Some n <->
  exists pre post, req = pre ++ n :: post /\ Forall (fun x => assocb x env <> None) pre /\ assocb n env = None.
Proof.
  induction req as [|x r IH]; cbn.
  - split; [discriminate|]. intros (pre & post & H & _). destruct pre; discriminate.
  - destruct (assocb x env) eqn:E.
    + rewrite IH. split.
      * intros (pre & post & -> & Hp & Hn). exists (x :: pre), post. repeat split; auto. constructor; [congruence|exact Hp].
      * intros (pre & post & H & Hp & Hn). destruct pre as [|y pre]; cbn in H.
        -- injection H as -> ->. congruence.
        -- injection H as -> ->. exists pre, post. inversion Hp. auto.
    + split.
      * intros [= <-]. exists [], r. repeat split; auto.
      * intros (pre & post & H & Hp & Hn). destruct pre as [|y pre]; cbn in H.
        -- now injection H as -> _.
        -- injection H as -> _. inversion Hp. congruence.
Qed.
Theorem required_error w fu s file props next c n : assocb file w = Some c -> c_wrapper c = true ->
  first_missing (envmap (set_all (push s (eval_props s props)) (c_fm c))) (c_required c) = Some n ->
  eval w (S fu) s (IInclude file props next) = Err (ERequired n).
Proof. intros Hf Hw Hm. cbn [eval]. rewrite Hf. cbn zeta. rewrite Hw, Hm. reflexivity. Qed.
Theorem required_met_no_error_here w fu s file props next c : assocb file w = Some c ->
  first_missing (envmap (set_all (push s (eval_props s props)) (c_fm c))) (c_required c) = None ->
  eval w (S fu) s (IInclude file props next) =
  (let s1 := set_all (push s (eval_props s props)) (c_fm c) in
   match eval w fu s1 (c_body c) with
   | Err e => Err e
   | Ok (o, s2) => match eval w fu (pop s2) next with Err e => Err e | Ok (o', s3) => Ok (o ++ o', s3) end
   end).
Proof. intros Hf Hm. cbn [eval]. rewrite Hf. cbn zeta. rewrite Hm. destruct (c_wrapper c); reflexivity. Qed.

(* 4. a registered shorthand tag is the equivalent include *)
Theorem shorthand_equiv w fu s tag props next file : file_of_tag w tag = Some file ->
  eval w (S fu) s (ITag tag props next) = eval w (S fu) s (IInclude file props next).
Proof. intro H. cbn [eval]. now rewrite H. Qed.

(* bound values keep their type; static and interpolated attributes are strings *)
Theorem bound_prop_keeps_value s n p r v : resolve s p = Some v -> truthy v = true ->
  assocb n (eval_props s ((n, PBound p) :: r)) = Some v.
Proof. intros H1 H2. cbn. rewrite H1, H2. apply assocb_put_same. Qed.
Theorem static_prop_is_string s n t r : assocb n (eval_props s ((n, PStatic t) :: r)) = Some (VStr t).
Proof. cbn. apply assocb_put_same. Qed.
