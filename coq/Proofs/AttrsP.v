From V Require Import Base.Bytes Base.Val Model.Stack Model.Truthy Model.Escape Model.Interp Model.Attrs.

Definition plain (v : bytes) : Prop := contains_interpolation (trim v) = false.
Lemma interpolate_plain s v : plain v -> interpolate false s (trim v) = Some (trim v).
Proof. unfold plain, interpolate. now intros ->. Qed.
Definition bound_val (s : stack) (p : bytes) : val := match resolve s p with Some v => v | None => VStr [] end.

(* 2. static attributes pass through (trimmed) in place and in order ... *)
Lemma first_pass_statics s : forall (l : list (bytes * bytes)) stat bound, Forall (fun kv => plain (snd kv)) l ->
  first_pass s (map (fun kv => AStatic (fst kv) (snd kv)) l) stat bound =
  Some (stat ++ map (fun kv => (fst kv, trim (snd kv))) l, bound).
Proof.
  induction l as [|[k v] r IH]; intros stat bound H; cbn [map first_pass fst snd].
  - now rewrite app_nil_r.
  - inversion H as [|? ? Hv Hr]; subst. cbn in Hv. rewrite (interpolate_plain s v Hv). rewrite IH by assumption.
    cbn. now rewrite <- app_assoc.
Qed.
Lemma first_pass_app s a : forall b stat bound stat' bound',
  first_pass s a stat bound = Some (stat', bound') -> first_pass s (a ++ b) stat bound = first_pass s b stat' bound'.
Proof.
  induction a as [|x a IH]; intros b stat bound stat' bound' H; cbn [app].
  - cbn in H. now injection H as <- <-.
  - destruct x as [k v|k p|k v|k ps]; cbn [first_pass] in *.
    + destruct (interpolate false s (trim v)); [|discriminate]. now apply IH.
    + destruct (bound_value s (ABound k p)) as [[k' v']|]; [|discriminate]. destruct (truthy v'); now apply IH.
    + destruct (bound_value s (ABoundInterp k v)) as [[k' v']|]; [|discriminate]. destruct (truthy v'); now apply IH.
    + destruct (bound_value s (AObj k ps)) as [[k' v']|]; [|discriminate]. destruct (truthy v'); now apply IH.
Qed.
Lemma replace_first_none k f (l : attrs) : (forall kv, In kv l -> fst kv <> k) -> replace_first k f l = None.
Proof.
  induction l as [|[k' v] r IH]; intro H; cbn; [reflexivity|].
  destruct (bytes_eqb_spec k' k) as [->|Hne]; [exfalso; apply (H (k, v)); [now left|reflexivity]|].
  rewrite IH; [reflexivity|]. intros kv Hin. apply H. now right.
Qed.
(* 1. ... and a bound attribute is emitted after them with the value's string form exactly when truthy *)
Theorem bound_after_statics s (l : list (bytes * bytes)) k p :
  Forall (fun kv => plain (snd kv)) l -> (forall kv, In kv l -> fst kv <> k) ->
  eval_attributes s (map (fun kv => AStatic (fst kv) (snd kv)) l ++ [ABound k p]) =
  Some (map (fun kv => (fst kv, trim (snd kv))) l ++ (if truthy (bound_val s p) then [(k, sprint (bound_val s p))] else [])).
Proof.
  intros Hp Hk. unfold eval_attributes.
  rewrite (first_pass_app s _ [ABound k p] [] [] _ _ (first_pass_statics s l [] [] Hp)). cbn [app first_pass bound_value].
  fold (bound_val s p). destruct (truthy (bound_val s p)); cbn [first_pass put_keep_pos fold_left].
  - unfold merge_one. cbn [fst snd]. rewrite replace_first_none; [reflexivity|].
    intros kv Hin. apply in_map_iff in Hin. destruct Hin as ([k' v'] & <- & Hin). cbn. now apply (Hk (k', v')).
  - now rewrite app_nil_r.
Qed.
Corollary bound_falsy_omitted s k p : truthy (bound_val s p) = false -> eval_attributes s [ABound k p] = Some [].
Proof. intro H. pose proof (bound_after_statics s [] k p (Forall_nil _) (fun _ F => match F with end)) as E. cbn in E. now rewrite H in E. Qed.
Corollary bound_truthy_emitted s k p : truthy (bound_val s p) = true ->
  eval_attributes s [ABound k p] = Some [(k, sprint (bound_val s p))].
Proof. intro H. pose proof (bound_after_statics s [] k p (Forall_nil _) (fun _ F => match F with end)) as E. cbn in E. now rewrite H in E. Qed.

(* 3. class: static and bound classes are merged; object syntax contributes exactly the truthy keys *)
Theorem class_merge s c p : plain c -> truthy (bound_val s p) = true ->
  eval_attributes s [AStatic k_class c; ABound k_class p] = Some [(k_class, trim c ++ x20 :: sprint (bound_val s p))].
Proof.
  intros Hc Ht. unfold eval_attributes. cbn [first_pass]. rewrite (interpolate_plain s c Hc). cbn [bound_value].
  fold (bound_val s p). rewrite Ht. cbn. reflexivity.
Qed.
Definition pair_value (s : stack) (e : vexpr) : val := match eval_vexpr s e with Some v => v | None => VNil end.
Theorem class_object_keys s ps :
  class_of_pairs s ps = Val.join [x20] (map fst (filter (fun kv => truthy (pair_value s (snd kv))) ps)).
Proof.
  unfold class_of_pairs. f_equal. induction ps as [|[k e] r IH]; cbn; [reflexivity|].
  unfold pair_value at 1. destruct e as [v|p]; cbn [eval_vexpr snd fst].
  - destruct (truthy v); cbn; now rewrite IH.
  - destruct (if expr_plain p then expr_path s p else resolve s p) as [v|]; [destruct (truthy v)|]; cbn; now rewrite IH.
Qed.

(* 4. style: a later declaration overrides the same-named earlier one in place and keeps the others *)
Fixpoint get_decl (k : bytes) (ds : attrs) : option bytes :=
  match ds with [] => None | (k', v) :: r => if bytes_eqb k' k then Some v else get_decl k r end.
Lemma get_set_same ds k v : get_decl k (set_decl ds k v) = Some v.
Proof. induction ds as [|[k' v'] r IH]; cbn; [now rewrite bytes_eqb_refl|]. destruct (bytes_eqb k' k) eqn:E; cbn; now rewrite E. Qed.
Lemma get_set_other ds k v x : x <> k -> get_decl x (set_decl ds k v) = get_decl x ds.
Proof.
  intro H. induction ds as [|[k' v'] r IH]; cbn.
  - destruct (bytes_eqb_spec k x); congruence.
  - destruct (bytes_eqb_spec k' k); cbn.
    + subst. destruct (bytes_eqb_spec k x); congruence.
    + destruct (bytes_eqb k' x); auto.
Qed.
Lemma keys_set_decl ds k v : map fst (set_decl ds k v) = if existsb (bytes_eqb k) (map fst ds) then map fst ds else map fst ds ++ [k].
Proof.
  induction ds as [|[k' v'] r IH]; cbn; [reflexivity|]. destruct (bytes_eqb_spec k' k) as [->|Hne]; cbn.
  - now rewrite bytes_eqb_refl.
  - rewrite IH. destruct (bytes_eqb_spec k k'); [congruence|]. cbn. destruct (existsb (bytes_eqb k) (map fst r)); reflexivity.
Qed.
Theorem style_override static bound k : 
  get_decl k (fold_left (fun ds kv => set_decl ds (fst kv) (snd kv)) bound static) =
  match get_decl k (rev bound) with Some v => Some v | None => get_decl k static end.
Proof.
  revert static. induction bound as [|[bk bv] r IH]; intro static; cbn [fold_left rev]; [reflexivity|].
  rewrite IH. clear IH. cbn [fst snd].
  assert (Happ : forall a b, get_decl k (a ++ b) = match get_decl k a with Some v => Some v | None => get_decl k b end).
  { induction a as [|[x y] a IHa]; intro b; cbn; [reflexivity|]. destruct (bytes_eqb x k); auto. }
  rewrite Happ. destruct (get_decl k (rev r)); [reflexivity|]. cbn.
  destruct (bytes_eqb_spec bk k) as [->|Hne]; [apply get_set_same|apply get_set_other; congruence].
Qed.
(* style object keys are kebab-cased unless they already contain a hyphen *)
Example style_object_example :
  style_of_pairs {| scopes := [[]]; root := VNil |} [(bs "fontSize", ELit (VStr (bs "12px"))); (bs "margin-top", ELit (VInt KInt 0)); (bs "color", ELit (VStr []))]
  = bs "font-size:12px;margin-top:0;".
Proof. vm_compute. reflexivity. Qed.

(* 5. v-show: display:none is added exactly when the condition is falsy *)
Theorem vshow_truthy s l cond : get_static k_vshow l = Some cond -> cond_truthy s cond = true -> eval_vshow s l = l.
Proof. intros H Ht. unfold eval_vshow. rewrite H, Ht. destruct cond; reflexivity. Qed.
Lemma get_set_static k v l : get_static k (set_static k v l) = Some v.
Proof.
  induction l as [|a r IH]; [cbn; now rewrite bytes_eqb_refl|].
  destruct a as [k' v'|k' p|k' v'|k' ps]; cbn [set_static get_static]; auto.
  destruct (bytes_eqb k' k) eqn:E; cbn [get_static]; [now rewrite bytes_eqb_refl|now rewrite E].
Qed.
Theorem vshow_falsy s l cond : get_static k_vshow l = Some cond -> cond <> [] -> cond_truthy s cond = false ->
  exists ds, get_static k_style (eval_vshow s l) = Some (join_decls ds) /\ get_decl (bs "display") ds = Some (bs "none").
Proof.
  intros H Hne Hf. unfold eval_vshow. rewrite H, Hf. destruct cond; [congruence|].
  eexists. split; [apply get_set_static|apply get_set_same].
Qed.
Theorem vshow_absent s l : get_static k_vshow l = None -> eval_vshow s l = l.
Proof. intro H. unfold eval_vshow. now rewrite H. Qed.

(* 6. directive attributes never appear in the output (a bracketed name is a literal, whatever it spells) *)
Theorem directives_never_emitted l k v : In (k, v) (render_attrs l) ->
  exists k0, In (k0, v) l /\ ((is_bracketed k0 = false /\ k = k0 /\ existsb (bytes_eqb k) directives = false) \/
                             (is_bracketed k0 = true /\ k = unbracket k0)).
Proof.
  unfold render_attrs. intro H. apply in_flat_map in H. destruct H as ([k0 v0] & Hin & H). cbn [fst snd] in H.
  unfold ignored in H. destruct (is_bracketed k0) eqn:Eb; cbn [negb andb] in H.
  - destruct H as [E|[]]. injection E as <- <-. exists k0. split; [assumption|right; auto].
  - destruct (existsb (bytes_eqb k0) directives) eqn:Ed; [destruct H|].
    destruct H as [E|[]]. injection E as <- <-. exists k0. split; [assumption|left; auto].
Qed.
(* 7. [k]="v" is emitted as k="v" - for values without a balanced mustache pair; with one, the value
      is interpolated (pinned by the test suite): the refuting witness *)
Theorem bracket_literal_partial s k v : plain v -> is_bracketed k = true ->
  element_attrs s [AStatic k v] = Some [(unbracket k, trim v)].
Proof.
  intros Hp Hb. unfold element_attrs.
  assert (Hv : eval_vshow s [AStatic k v] = [AStatic k v]).
  { unfold eval_vshow. cbn [get_static]. destruct (bytes_eqb_spec k k_vshow) as [->|_]; [discriminate|reflexivity]. }
  rewrite Hv. unfold eval_attributes. cbn [first_pass]. rewrite (interpolate_plain s v Hp). cbn [fold_left render_attrs flat_map fst snd app].
  unfold ignored. rewrite Hb. reflexivity.
Qed.
Theorem bracket_literal_refuted : exists s k v, is_bracketed k = true /\ element_attrs s [AStatic k v] <> Some [(unbracket k, trim v)].
Proof.
  exists {| scopes := [[(bs "s", VStr (bs "val"))]]; root := VNil |}, (bs "[title]"), (bs "{{ s }}").
  split; [reflexivity|]. vm_compute. discriminate.
Qed.

(* ---- style keys: camelToKebab ---- *)
(* a key without capital letters is written unchanged; a capital letter other than the first becomes a hyphen and
   its lower-case letter; the first letter is kept as it is; nothing else is added or removed *)
Definition no_upper (s : bytes) : bool := forallb (fun c => negb (is_upper c)) s.
Lemma kebab_lowercase_unchanged s : forall first, no_upper s = true -> camel_to_kebab first s = s.
Proof.
  induction s as [|c r IH]; intros first H; [reflexivity|]. cbn [no_upper forallb] in H.
  apply andb_true_iff in H. destruct H as [Hc Hr]. apply negb_true_iff in Hc.
  cbn [camel_to_kebab]. rewrite Hc. cbn [andb app]. f_equal. now apply IH.
Qed.
Lemma to_lower_not_upper c : is_upper c = true -> is_upper (to_lower c) = false.
Proof.
  unfold is_upper, to_lower. intro H. apply andb_true_iff in H. destruct H as [H1 H2].
  apply N.leb_le in H1. apply N.leb_le in H2.
  destruct (Byte.of_N (bN c + 32)) as [b|] eqn:E.
  - assert (Hb : bN b = (bN c + 32)%N) by (unfold bN; now apply Byte.to_of_N).
    rewrite Hb. apply andb_false_iff. right. apply N.leb_gt. lia.
  - exfalso. pose proof (Byte.of_N_None_iff (bN c + 32)) as Hn. apply Hn in E. lia.
Qed.
Lemma kebab_tail_no_upper s : no_upper (camel_to_kebab false s) = true.
Proof.
  induction s as [|c r IH]; [reflexivity|]. cbn [camel_to_kebab negb andb]. rewrite andb_true_r.
  unfold no_upper in *. rewrite forallb_app, IH, andb_true_r.
  destruct (is_upper c) eqn:E; cbn [forallb].
  - rewrite (to_lower_not_upper c E). reflexivity.
  - now rewrite E.
Qed.
Theorem kebab_only_first_capital_survives c r : camel_to_kebab true (c :: r) = c :: camel_to_kebab false r /\ no_upper (camel_to_kebab false r) = true.
Proof. split; [cbn [camel_to_kebab negb andb]; now rewrite andb_false_r|apply kebab_tail_no_upper]. Qed.
Fixpoint count_upper (s : bytes) : nat := match s with [] => 0 | c :: r => (if is_upper c then 1 else 0) + count_upper r end.
Theorem kebab_length s : forall first, length (camel_to_kebab first s) = length s + count_upper s - (if first then match s with c :: _ => if is_upper c then 1 else 0 | [] => 0 end else 0).
Proof.
  induction s as [|c r IH]; intro first; [destruct first; reflexivity|].
  cbn [camel_to_kebab]. rewrite app_length, (IH false). cbn [length count_upper].
  destruct (is_upper c), first; cbn [andb negb length]; lia.
Qed.
