From V Require Import Base.Bytes Base.Obs Base.Val Model.Stack Model.Truthy Model.Loops Proofs.StackP.

Lemma run_for s vars coll cond body he els next :
  run s (TFor vars coll cond body he els next) =
  let '(out, s1) := iter vars cond body s (for_each s coll) 0%Z in
  let '(out', s2) := if is_empty out && he then run s1 els else (out, s1) in
  let '(o, s3) := run s2 next in (out' ++ o, s3).
Proof. reflexivity. Qed.
Lemma spec_for s vars coll cond body he els next :
  spec s (TFor vars coll cond body he els next) =
  (let out := instances s vars cond body (for_each s coll) 0%Z in
   if is_empty out && he then spec s els else out) ++ spec s next.
Proof.
  cbn [spec]. f_equal.
  assert (E : forall items i,
    (fix it (items : list val) (i : Z) {struct items} : list record :=
       match items with
       | [] => []
       | v :: r => (if cond_ok (bind (push s []) vars i v) cond then spec (bind (push s []) vars i v) body else []) ++ it r (i + 1)%Z
       end) items i = instances s vars cond body items i).
  { induction items as [|v r IH]; intro i; cbn; [reflexivity|]. now rewrite IH. }
  now rewrite E.
Qed.

(* Push / Set / Pop around an instance: the stack is exactly what it was *)
Lemma scopes_set s k v : scopes (set s k v) <> [].
Proof. unfold set. destruct (scopes s); cbn; discriminate. Qed.
Lemma scopes_bind s vars i v : scopes s <> [] -> scopes (bind s vars i v) <> [].
Proof.
  intro H. unfold bind. destruct vars as [|x [|y [|z r]]]; auto; apply scopes_set.
Qed.
Lemma pop_bind_push s vars i v : scopes s <> [] -> pop (bind (push s []) vars i v) = s.
Proof.
  intro H. destruct s as [sc rt]. cbn in H. destruct sc as [|m r]; [congruence|].
  unfold bind, push, set, pop. destruct vars as [|x [|y [|z q]]]; cbn; reflexivity.
Qed.

(* the threaded evaluator returns the stack it was given, and computes the specification *)
Theorem run_spec : forall t s, scopes s <> [] -> run s t = (spec s t, s).
Proof.
  induction t as [|id ws next IHn|vars coll cond body IHb he els IHe next IHn]; intros s Hs.
  - reflexivity.
  - cbn. now rewrite IHn.
  - rewrite run_for, spec_for.
    assert (Hit : forall items i, iter vars cond body s items i = (instances s vars cond body items i, s)).
    { induction items as [|v r IH]; intro i; [reflexivity|]. cbn [iter instances].
      set (s1 := bind (push s []) vars i v).
      assert (Hs1 : scopes s1 <> []) by (apply scopes_bind; cbn; discriminate).
      assert (Hp : pop s1 = s) by (apply pop_bind_push; exact Hs).
      destruct (cond_ok s1 cond).
      - rewrite (IHb s1 Hs1). rewrite Hp. fold (iter vars cond body). rewrite IH. reflexivity.
      - rewrite Hp. fold (iter vars cond body). rewrite IH. reflexivity. }
    rewrite Hit. cbn zeta. destruct (is_empty (instances s vars cond body (for_each s coll) 0) && he).
    + rewrite (IHe s Hs), (IHn s Hs). reflexivity.
    + rewrite (IHn s Hs). reflexivity.
Qed.

(* 1. instances: one per item, in order *)
Theorem for_instances s vars coll cond body he els next :
  instances s vars cond body (for_each s coll) 0%Z <> [] ->
  spec s (TFor vars coll cond body he els next) = instances s vars cond body (for_each s coll) 0%Z ++ spec s next.
Proof. intro H. rewrite spec_for. cbn zeta. destruct (instances s vars cond body (for_each s coll) 0); [congruence|reflexivity]. Qed.
Lemma instances_app s vars cond body a : forall b i,
  instances s vars cond body (a ++ b) i =
  instances s vars cond body a i ++ instances s vars cond body b (i + Z.of_nat (length a))%Z.
Proof.
  induction a as [|v r IH]; intros b i; cbn [app instances length].
  - now rewrite Z.add_0_r.
  - rewrite IH, <- app_assoc. f_equal. f_equal. f_equal. rewrite Nat2Z.inj_succ. lia.
Qed.
(* 3. the v-else sibling: rendered exactly when the loop produced nothing, consumed either way *)
Theorem for_else s vars coll cond body els next :
  spec s (TFor vars coll cond body true els next) =
  (if is_empty (instances s vars cond body (for_each s coll) 0%Z) then spec s els
   else instances s vars cond body (for_each s coll) 0%Z) ++ spec s next.
Proof. rewrite spec_for. cbn zeta. now rewrite andb_true_r. Qed.
Theorem for_no_else s vars coll cond body els next :
  spec s (TFor vars coll cond body false els next) = instances s vars cond body (for_each s coll) 0%Z ++ spec s next.
Proof. rewrite spec_for. cbn zeta. now rewrite andb_false_r. Qed.
(* 4. sequences of every kind in index order; nil, missing and non-sequences yield nothing *)
Theorem for_each_list s p l : resolve s p = Some (VList l) -> for_each s p = l.
Proof. unfold for_each. now intros ->. Qed.
Theorem for_each_arr s p l : resolve s p = Some (VArr l) -> for_each s p = l.
Proof. unfold for_each. now intros ->. Qed.
Theorem for_each_missing s p : resolve s p = None -> for_each s p = [].
Proof. unfold for_each. now intros ->. Qed.
Theorem for_each_scalar s p v : resolve s p = Some v ->
  (forall l, v <> VList l) -> (forall l, v <> VArr l) -> map_items v = None -> for_each s p = [].
Proof.
  unfold for_each. intros -> H1 H2 H3. destruct v; try reflexivity; try discriminate;
    [now specialize (H1 l)|now specialize (H2 l)].
Qed.
(* 2. the loop variable is bound inside the instance only: innermost scope, shadowing everything *)
Theorem loop_var_visible s x i v : lookup (bind (push s []) [x] i v) x = Some v.
Proof. cbn [bind]. apply set_then_lookup. Qed.
Theorem loop_index_visible s ix x i v : ix <> x ->
  lookup (bind (push s []) [ix; x] i v) ix = Some (VInt KInt i) /\ lookup (bind (push s []) [ix; x] i v) x = Some v.
Proof. intro H. cbn [bind]. split; [rewrite set_other by assumption|]; apply set_then_lookup. Qed.
Theorem other_names_unchanged_inside s x i v y : y <> x -> lookup (bind (push s []) [x] i v) y = lookup s y.
Proof.
  intro H. cbn [bind]. rewrite set_other by assumption. rewrite lookup_innermost. reflexivity.
Qed.
(* 5. inside an instance the expression environment shows the loop variables, also over a root struct *)
Theorem envmap_sees_loop_var s x i v : Forall uniq (scopes s) ->
  assocb x (envmap (bind (push s []) [x] i v)) = Some v.
Proof.
  intro Hu. cbn [bind]. rewrite envmap_spec.
  - unfold set, push. cbn. now rewrite bytes_eqb_refl.
  - unfold set, push. cbn. constructor; [|exact Hu]. unfold uniq. cbn. constructor; [intros []|constructor].
Qed.
