From V Require Import Base.Bytes Model.Layout.

Lemma eget_app a b k : eget (a ++ b) k = match eget a k with Some v => Some v | None => eget b k end.
Proof. induction a as [|[k' v] r IH]; cbn; [reflexivity|]. destruct (bytes_eqb k' k); auto. Qed.
Lemma eget_edel_same e k : eget (edel e k) k = None.
Proof. induction e as [|[k' v] r IH]; cbn; [reflexivity|]. destruct (bytes_eqb k' k) eqn:E; [exact IH|]. cbn. now rewrite E. Qed.
Lemma eget_edel_other e k x : x <> k -> eget (edel e k) x = eget e x.
Proof.
  intro H. induction e as [|[k' v] r IH]; cbn; [reflexivity|]. destruct (bytes_eqb_spec k' k).
  - subst. destruct (bytes_eqb_spec k x); [congruence|exact IH].
  - cbn. destruct (bytes_eqb k' x); auto.
Qed.
Lemma eget_eput_same e k v : eget (eput e k v) k = Some v.
Proof. unfold eput. cbn. now rewrite bytes_eqb_refl. Qed.
Lemma eget_eput_other e k v x : x <> k -> eget (eput e k v) x = eget e x.
Proof. intro H. unfold eput. cbn. destruct (bytes_eqb_spec k x); [congruence|]. now apply eget_edel_other. Qed.
Lemma layout_content_distinct : k_layout <> k_content.
Proof. discriminate. Qed.
(* the data handed on: the previous result as content, no layout key, everything else as it was *)
Lemma next_data_spec data c x :
  eget (edel (eput data k_content c) k_layout) x =
  if bytes_eqb x k_layout then None else if bytes_eqb x k_content then Some c else eget data x.
Proof.
  destruct (bytes_eqb_spec x k_layout) as [->|H1]; [apply eget_edel_same|].
  rewrite eget_edel_other by assumption. destruct (bytes_eqb_spec x k_content) as [->|H2]; [apply eget_eput_same|].
  now apply eget_eput_other.
Qed.
Lemma layout_of_merge fm data : layout_of (emerge fm data) =
  match eget fm k_layout with Some [] => None | Some l => Some l | None => layout_of data end.
Proof. unfold layout_of, emerge. rewrite eget_app. destruct (eget fm k_layout) as [[|c l]|]; reflexivity. Qed.
Lemma layout_of_next data c : layout_of (edel (eput data k_content c) k_layout) = None.
Proof. unfold layout_of. now rewrite eget_edel_same. Qed.

Section LayoutP.
Variable files : bytes -> option env.
Variable R : bytes -> env -> option bytes.
Variable resolve : bytes -> bytes -> bytes.
Variable base : bytes.
Notation loop := (loop files R resolve base).
Notation walk := (walk files resolve base).
Notation renders := (renders files R).
(* front-matter with an explicitly empty layout is not distinguished from no layout (Get returns "") *)
Definition fm_ok := forall f fm, files f = Some fm -> eget fm k_layout <> Some [].

Definition finish (w : why) (r : option (option bytes)) : outcome :=
  match r with
  | None => ErrRender
  | Some last => match w with
                 | Done => match last with Some c => Ok c | None => ErrRender end
                 | Depth => ErrDepth
                 | Missing => ErrMissing
                 end
  end.

(* 1. the loop = render the page, then each layout of the chain with the previous result as content;
      only the last result is the output; errors for depth, missing file, failing link *)
Theorem loop_spec n : forall f first data last, fm_ok ->
  loop n f first data = let '(fs, w) := walk n f first (layout_of data) in finish w (renders fs data last).
Proof.
  intros f first data last Hfm. revert f first data last.
  induction n as [|n IH]; intros f first data last; cbn; [reflexivity|].
  destruct (files f) as [fm|] eqn:Ef; [|reflexivity].
  rewrite layout_of_merge. pose proof (Hfm f fm Ef) as Hne.
  assert (Hl : layout_of fm = match eget fm k_layout with Some [] => None | o => o end) by reflexivity.
  destruct (eget fm k_layout) as [[|c0 l0]|] eqn:El; [exfalso; now apply Hne| |].
  - (* the file names a layout *)
    rewrite Hl. specialize (IH (resolve (c0 :: l0) f) false).
    destruct (R f (emerge fm data)) as [c|] eqn:Er.
    + specialize (IH (edel (eput data k_content c) k_layout) (Some c)). rewrite layout_of_next in IH.
      destruct (walk n (resolve (c0 :: l0) f) false None) as [fs w]. cbn. rewrite Ef, Er. exact IH.
    + destruct (walk n (resolve (c0 :: l0) f) false None) as [fs w]. cbn. rewrite Ef, Er. reflexivity.
  - rewrite Hl. destruct (layout_of data) as [l|] eqn:Ed.
    + specialize (IH (resolve l f) false).
      destruct (R f (emerge fm data)) as [c|] eqn:Er.
      * specialize (IH (edel (eput data k_content c) k_layout) (Some c)). rewrite layout_of_next in IH.
        destruct (walk n (resolve l f) false None) as [fs w]. cbn. rewrite Ef, Er. exact IH.
      * destruct (walk n (resolve l f) false None) as [fs w]. cbn. rewrite Ef, Er. reflexivity.
    + destruct first.
      * specialize (IH base false).
        destruct (R f (emerge fm data)) as [c|] eqn:Er.
        -- specialize (IH (edel (eput data k_content c) k_layout) (Some c)). rewrite layout_of_next in IH.
           destruct (walk n base false None) as [fs w]. cbn. rewrite Ef, Er. exact IH.
        -- destruct (walk n base false None) as [fs w]. cbn. rewrite Ef, Er. reflexivity.
      * cbn. rewrite Ef. destruct (R f (emerge fm data)); reflexivity.
Qed.

(* 4. termination is by construction; a chain longer than the budget is an error, never output *)
Lemma walk_len n : forall f first dl, length (fst (walk n f first dl)) <= n.
Proof.
  induction n as [|n IH]; intros; cbn; [lia|]. destruct (files f) as [fm|]; cbn; [|lia].
  destruct (match layout_of fm with Some l => Some l | None => dl end) as [l|].
  - specialize (IH (resolve l f) false None). destruct (walk n (resolve l f) false None). cbn in *. lia.
  - destruct first; cbn; [|lia]. specialize (IH base false None). destruct (walk n base false None). cbn in *. lia.
Qed.
Theorem ok_only_if_chain_ends n f first data c : fm_ok ->
  loop n f first data = Ok c -> snd (walk n f first (layout_of data)) = Done.
Proof.
  intros Hfm H. pose proof (loop_spec n f first data None Hfm) as S. rewrite H in S.
  destruct (walk n f first (layout_of data)) as [fs w]. cbn in *.
  unfold finish in S. destruct (renders fs data None) as [l'|]; [|discriminate]. destruct w; [reflexivity|discriminate|discriminate].
Qed.
Theorem no_output_when_chain_does_not_end n f first data : fm_ok ->
  snd (walk n f first (layout_of data)) <> Done -> forall c, loop n f first data <> Ok c.
Proof. intros Hfm H c E. apply H. eapply ok_only_if_chain_ends; eauto. Qed.

(* 2. the default layout: applied exactly when the page names none and the file exists *)
Lemma walk_S n f first dl : walk (S n) f first dl =
  match files f with
  | None => ([], Missing)
  | Some fm =>
      match (match layout_of fm with Some l => Some l | None => dl end) with
      | Some l => let '(fs, w) := walk n (resolve l f) false None in (f :: fs, w)
      | None => if first then let '(fs, w) := walk n base false None in (f :: fs, w) else ([f], Done)
      end
  end.
Proof. reflexivity. Qed.
Theorem default_base_chain n f fm : files f = Some fm -> layout_of fm = None ->
  fst (walk (S n) f true None) = f :: fst (walk n base false None).
Proof. intros Hf Hl. rewrite walk_S, Hf, Hl. destruct (walk n base false None). reflexivity. Qed.
Theorem named_layout_skips_base n f fm l dl : files f = Some fm -> layout_of fm = Some l ->
  fst (walk (S n) f true dl) = f :: fst (walk n (resolve l f) false None).
Proof. intros Hf Hl. rewrite walk_S, Hf, Hl. destruct (walk n (resolve l f) false None). reflexivity. Qed.
Theorem no_base_no_layout_plain maxd f fm data : files f = Some fm -> layout_of (emerge fm data) = None -> files base = None ->
  render_entry files R resolve base maxd f data = match R f (emerge fm data) with Some c => Ok c | None => ErrRender end.
Proof. intros Hf Hl Hb. unfold render_entry. now rewrite Hf, Hl, Hb. Qed.
Theorem base_applied_once n fmb : files base = Some fmb -> layout_of fmb = None ->
  walk (S n) base false None = ([base], Done).
Proof. intros Hb Hl. rewrite walk_S, Hb, Hl. reflexivity. Qed.
End LayoutP.
