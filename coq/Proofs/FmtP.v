From Coq Require Import List Bool Arith Lia.
Import ListNotations.
From V Require Import Base.Bytes Model.Escape Model.Tok Model.Fmt.

(* ---------- FormatAttr ---------- *)
Definition notws (w : bytes) : bool := forallb (fun c => negb (is_uws c)) w.
Definition word (w : bytes) : Prop := w <> [] /\ notws w = true.

Lemma split_word w : notws w = true -> forall rest cur, split (w ++ rest) cur = split rest (cur ++ w).
Proof.
  unfold notws. induction w as [|c w IH]; intros H rest cur; cbn [app]; [now rewrite app_nil_r|].
  cbn [forallb] in H. apply andb_true_iff in H. destruct H as [Hc Hw]. apply negb_true_iff in Hc.
  cbn [split]. rewrite Hc, IH by assumption. now rewrite <- app_assoc.
Qed.
Lemma split_words s : forall cur, notws cur = true -> Forall word (split s cur).
Proof.
  unfold notws. induction s as [|c r IH]; intros cur Hc; cbn [split].
  - destruct cur; cbn; constructor; [split; [discriminate|assumption]|constructor].
  - destruct (is_uws c) eqn:E.
    + destruct cur; cbn [nonempty]; [apply IH; reflexivity|].
      constructor; [split; [discriminate|assumption]|apply IH; reflexivity].
    + apply IH. rewrite forallb_app, Hc. cbn. now rewrite E.
Qed.
Lemma fields_words s : Forall word (fields s).
Proof. apply split_words. reflexivity. Qed.
Lemma ws_x20 : is_uws x20 = true. Proof. reflexivity. Qed.
Lemma fields_join l : Forall word l -> fields (join l) = l.
Proof.
  unfold fields. induction 1 as [|w r [Hne Hw] Hr IH]; [reflexivity|].
  cbn [join]. destruct r as [|w2 r].
  - rewrite <- (app_nil_r w) at 1. rewrite split_word by assumption. cbn. destruct w; [congruence|reflexivity].
  - rewrite split_word by assumption. cbn [app split]. rewrite ws_x20.
    destruct w; [congruence|]. cbn [nonempty]. f_equal. exact IH.
Qed.
(* formatting a formatted attribute value changes nothing - for ALL byte strings *)
Theorem format_attr_idempotent s : format_attr (format_attr s) = format_attr s.
Proof. unfold format_attr. now rewrite fields_join by apply fields_words. Qed.

(* the only whitespace left in a formatted value is single interior spaces *)
Lemma split_dropw s : forall cur, split s cur = split s cur. Proof. reflexivity. Qed.
Lemma fields_cons_ws c s : is_uws c = true -> fields (c :: s) = fields s.
Proof. intro H. unfold fields. cbn [split]. now rewrite H. Qed.
Lemma fields_app_ws s c : is_uws c = true -> forall cur, split (s ++ [c]) cur = split s cur.
Proof.
  intro H. induction s as [|d s IH]; intro cur; cbn [app split].
  - rewrite H. destruct cur; reflexivity.
  - destruct (is_uws d); [destruct (nonempty cur); [f_equal|]; apply IH|apply IH].
Qed.

(* ---------- normalizeInlineText ---------- *)
Lemma first_ws_join_word w r : word w -> first_ws (join (w :: r)) = false.
Proof.
  intros [Hne Hw]. destruct w as [|c w]; [congruence|]. cbn [notws forallb] in Hw.
  apply andb_true_iff in Hw. destruct Hw as [Hc _]. apply negb_true_iff in Hc.
  cbn [join]. destruct r; cbn; exact Hc.
Qed.
Lemma last_app_single {A} (l : list A) x : rev (l ++ [x]) = x :: rev l.
Proof. now rewrite rev_app_distr. Qed.
Lemma first_ws_rev_join l : Forall word l -> l <> [] -> first_ws (rev (join l)) = false.
Proof.
  induction 1 as [|w r Hw Hr IH]; [congruence|]. intros _. cbn [join]. destruct r as [|w2 r].
  - destruct Hw as [Hne Hn]. destruct (rev w) as [|c rw] eqn:E.
    + apply (f_equal (@rev _)) in E. rewrite rev_involutive in E. cbn in E. congruence.
    + cbn. unfold notws in Hn. rewrite forallb_forall in Hn.
      assert (Hin : In c w) by (apply in_rev; rewrite E; now left).
      specialize (Hn c Hin). now apply negb_true_iff in Hn.
  - rewrite !rev_app_distr. specialize (IH ltac:(discriminate)).
    destruct (rev (join (w2 :: r))) as [|c rr] eqn:E; [|exact IH].
    exfalso. apply (f_equal (@rev _)) in E. rewrite rev_involutive in E. cbn [rev] in E.
    inversion Hr as [|? ? [Hne _] _]; subst. cbn [join] in E. destruct r; [congruence|].
    destruct w2; [congruence|discriminate].
Qed.
Lemma fields_pad l : Forall word l -> forall a b : bool,
  fields ((if a then [x20] else []) ++ join l ++ (if b then [x20] else [])) = l.
Proof.
  intros Hl a b. assert (H1 : fields (join l ++ (if b then [x20] else [])) = l).
  { destruct b; [|rewrite app_nil_r; now apply fields_join].
    unfold fields. rewrite fields_app_ws by reflexivity. now apply fields_join. }
  destruct a; [|exact H1]. cbn [app]. rewrite fields_cons_ws by reflexivity. exact H1.
Qed.
(* normalising normalised inline text changes nothing - for ALL byte strings *)
Theorem normalize_inline_idempotent s : normalize_inline (normalize_inline s) = normalize_inline s.
Proof.
  unfold normalize_inline at 2 3. destruct (fields s) as [|w r] eqn:Ef.
  - destruct (nonempty s); reflexivity.
  - pose proof (fields_words s) as Hw. rewrite Ef in Hw.
    set (a := first_ws s). set (b := first_ws (rev s)).
    unfold normalize_inline. rewrite (fields_pad (w :: r) Hw a b).
    assert (Ha : first_ws ((if a then [x20] else []) ++ join (w :: r) ++ (if b then [x20] else [])) = a).
    { destruct a; [reflexivity|]. cbn [app]. inversion Hw as [|? ? Hw1 _]; subst.
      pose proof (first_ws_join_word w r Hw1) as H.
      destruct (join (w :: r)) as [|c0 j0] eqn:Ej.
      - exfalso. destruct Hw1 as [Hne _]. cbn [join] in Ej. destruct r; [congruence|destruct w; [congruence|discriminate]].
      - cbn [app first_ws] in H |- *. exact H. }
    assert (Hb : first_ws (rev ((if a then [x20] else []) ++ join (w :: r) ++ (if b then [x20] else []))) = b).
    { rewrite !rev_app_distr. destruct b; [reflexivity|]. cbn [rev app].
      pose proof (first_ws_rev_join (w :: r) Hw ltac:(discriminate)) as H.
      destruct (rev (join (w :: r))) as [|c rr] eqn:E; [|exact H].
      exfalso. apply (f_equal (@rev _)) in E. rewrite rev_involutive in E. cbn [rev] in E.
      inversion Hw as [|? ? [Hne _] _]; subst. cbn [join] in E. destruct r; [congruence|destruct w; [congruence|discriminate]]. }
    rewrite Ha, Hb. reflexivity.
Qed.

(* ---------- attribute value escaping ---------- *)
Lemma esc_a1_no_quote c : ~ In x22 (esc_a1 c).
Proof.
  unfold esc_a1. bcase c x26; [cbn; intuition discriminate|].
  bcase c x22; [cbn; intuition discriminate|]. intros [E|[]]. congruence.
Qed.
Lemma escape_attr_no_quote s : ~ In x22 (escape_attr s).
Proof.
  unfold escape_attr. intro H. apply in_flat_map in H. destruct H as (c & _ & Hc).
  exact (esc_a1_no_quote c Hc).
Qed.
(* a formatted value written between double quotes cannot end the value: the tokenizer stays inside it *)
Theorem escape_attr_inert e n a an s : forall av,
  run (AVdq e n a an av) (escape_attr s) = (AVdq e n a an (av ++ escape_attr s), []).
Proof.
  pose proof (escape_attr_no_quote s) as H. revert H. generalize (escape_attr s) as o. clear s.
  induction o as [|c o IH]; intros H av; cbn [run]; [now rewrite app_nil_r|].
  cbn [step]. rewrite beq_false by (intro E; apply H; now left).
  rewrite IH by (intro Hi; apply H; now right). now rewrite <- app_assoc.
Qed.
(* ... and decoding &amp; and &quot; gives the value back *)
Fixpoint dec_attr (fuel : nat) (s : bytes) : bytes :=
  match fuel with O => s | S f =>
  match s with
  | [] => []
  | c :: r => match strip (bs "&amp;") s with
              | Some rest => x26 :: dec_attr f rest
              | None => match strip (bs "&quot;") s with
                        | Some rest => x22 :: dec_attr f rest
                        | None => c :: dec_attr f r
                        end
              end
  end end.
Lemma dec_attr_amp f tl : dec_attr (S f) (bs "&amp;" ++ tl) = x26 :: dec_attr f tl.
Proof.
  change (bs "&amp;" ++ tl) with (x26 :: x61 :: x6d :: x70 :: x3b :: tl). cbn [dec_attr].
  change (bs "&amp;") with [x26; x61; x6d; x70; x3b]. cbn [strip]. now rewrite !beq_refl.
Qed.
Lemma dec_attr_quot f tl : dec_attr (S f) (bs "&quot;" ++ tl) = x22 :: dec_attr f tl.
Proof.
  change (bs "&quot;" ++ tl) with (x26 :: x71 :: x75 :: x6f :: x74 :: x3b :: tl). cbn [dec_attr].
  change (bs "&amp;") with [x26; x61; x6d; x70; x3b]. change (bs "&quot;") with [x26; x71; x75; x6f; x74; x3b].
  cbn [strip]. rewrite !beq_refl. now rewrite (beq_false x61 x71) by discriminate.
Qed.
Theorem dec_escape_attr s : forall fuel, length (escape_attr s) <= fuel -> dec_attr fuel (escape_attr s) = s.
Proof.
  induction s as [|c s IH]; intros fuel Hf; [destruct fuel; reflexivity|].
  unfold escape_attr in *. cbn [flat_map] in *. rewrite app_length in Hf. unfold esc_a1 at 1. unfold esc_a1 at 1 in Hf.
  bcase c x26.
  - destruct fuel as [|f]; [cbn in Hf; lia|]. rewrite dec_attr_amp. f_equal. apply IH. cbn in Hf. lia.
  - bcase c x22.
    + destruct fuel as [|f]; [cbn in Hf; lia|]. rewrite dec_attr_quot. f_equal. apply IH. cbn in Hf. lia.
    + destruct fuel as [|f]; [cbn in Hf; lia|]. cbn [app dec_attr].
      change (bs "&amp;") with [x26; x61; x6d; x70; x3b]. change (bs "&quot;") with [x26; x71; x75; x6f; x74; x3b].
      rewrite !strip_head_ne by congruence. f_equal. apply IH. cbn in Hf. lia.
Qed.

(* ---------- text escaping ---------- *)
(* text without a mustache opener: every & < > becomes a reference, nothing else changes *)
Fixpoint no_open (s : bytes) : bool :=
  match s with a :: r => match r with b :: _ => negb (beq a x7b && beq b x7b) && no_open r | [] => true end | [] => true end.
Lemma esc_text_plain s : no_open s = true -> forall fuel, length s < fuel -> esc_text fuel s = flat_map esc_t1 s.
Proof.
  induction s as [|a r IH]; intros Hn fuel Hf; [destruct fuel; reflexivity|].
  destruct fuel as [|f]; [cbn in Hf; lia|]. cbn [esc_text flat_map]. destruct r as [|b r'].
  - cbn. now rewrite app_nil_r.
  - cbn [no_open] in Hn. apply andb_true_iff in Hn. destruct Hn as [H1 H2]. apply negb_true_iff in H1.
    rewrite H1. f_equal. apply IH; [exact H2|cbn in Hf |- *; lia].
Qed.
(* a closed mustache region is copied byte for byte and escaping resumes after it *)
Fixpoint no_close (s : bytes) : bool :=
  match s with a :: r => match r with b :: _ => negb (beq a x7d && beq b x7d) && no_close r | [] => true end | [] => true end.
Lemma find_close_hit inside : no_close (inside ++ [x7d]) = true -> forall acc rest,
  find_close (inside ++ x7d :: x7d :: rest) acc = Some (acc ++ inside, rest).
Proof.
  induction inside as [|a r IH]; intros Hn acc rest.
  - cbn. now rewrite beq_refl, app_nil_r.
  - cbn [app] in *. cbn [find_close]. destruct (r ++ x7d :: x7d :: rest) as [|b r'] eqn:E.
    + destruct r; discriminate.
    + cbn [no_close] in Hn. destruct (r ++ [x7d]) as [|b2 r2] eqn:E2; [destruct r; discriminate|].
      assert (Hb : b2 = b).
      { destruct r as [|x r0]; cbn in E, E2; [injection E as <- _; injection E2 as <- _; reflexivity|].
        injection E as <- _. injection E2 as <- _. reflexivity. }
      subst b2. apply andb_true_iff in Hn. destruct Hn as [H1 H2]. apply negb_true_iff in H1. rewrite H1.
      rewrite <- E. rewrite (IH H2). now rewrite <- app_assoc.
Qed.
Theorem esc_text_mustache inside rest fuel :
  no_close (inside ++ [x7d]) = true ->
  esc_text (S fuel) (x7b :: x7b :: inside ++ x7d :: x7d :: rest) =
  esc_must ([x7b; x7b] ++ inside ++ [x7d; x7d]) ++ esc_text fuel rest.
Proof.
  intro Hn. cbn [esc_text]. rewrite !beq_refl. cbn [andb].
  rewrite (find_close_hit inside Hn [] rest). reflexivity.
Qed.
(* an expression in which no "<" is followed by a letter, "/", "!" or "?" is copied byte for byte *)
Fixpoint no_tag_open (s : bytes) : bool :=
  match s with a :: r => match r with b :: _ => negb (beq a x3c && tag_start b) && no_tag_open r | [] => true end | [] => true end.
Lemma esc_must_id s : no_tag_open s = true -> esc_must s = s.
Proof.
  induction s as [|a r IH]; [reflexivity|]. cbn [no_tag_open esc_must]. destruct r as [|b r']; [reflexivity|].
  intro H. apply andb_true_iff in H. destruct H as [H1 H2]. apply negb_true_iff in H1. rewrite H1. f_equal. now apply IH.
Qed.
Corollary esc_text_mustache_kept inside rest fuel :
  no_close (inside ++ [x7d]) = true -> no_tag_open ([x7b; x7b] ++ inside ++ [x7d; x7d]) = true ->
  esc_text (S fuel) (x7b :: x7b :: inside ++ x7d :: x7d :: rest) = [x7b; x7b] ++ inside ++ [x7d; x7d] ++ esc_text fuel rest.
Proof. intros Hn Ht. rewrite esc_text_mustache by assumption. rewrite (esc_must_id _ Ht). now rewrite <- !app_assoc. Qed.
(* and whatever the expression holds, the copy contains no "<" that opens a tag *)
Lemma esc_must_inert s : no_tag_open (esc_must s) = true.
Proof.
  induction s as [|a r IH]; [reflexivity|]. cbn [esc_must]. destruct r as [|b r']; [reflexivity|].
  destruct (beq a x3c && tag_start b) eqn:E.
  - change (bs "&lt;" ++ esc_must (b :: r')) with (x26 :: x6c :: x74 :: x3b :: esc_must (b :: r')).
    cbn [no_tag_open]. rewrite (beq_false x26 x3c), (beq_false x6c x3c), (beq_false x74 x3c) by discriminate. cbn [andb negb].
    destruct (esc_must (b :: r')) as [|c q] eqn:Eq; [reflexivity|]. rewrite (beq_false x3b x3c) by discriminate. exact IH.
  - cbn [no_tag_open]. destruct (esc_must (b :: r')) as [|c q] eqn:Eq; [reflexivity|].
    assert (Hc : c = b \/ c = x26).
    { cbn [esc_must] in Eq. destruct r' as [|b2 r2]; [injection Eq as <- _; now left|].
      destruct (beq b x3c && tag_start b2); [injection Eq as <- _; now right|injection Eq as <- _; now left]. }
    destruct Hc as [->| ->]; [rewrite E|]; cbn [negb andb]; [exact IH|].
    apply andb_true_iff. split; [|exact IH]. apply negb_true_iff. apply andb_false_iff. right. reflexivity.
Qed.

(* ---------- layout: whitespace between blocks is insignificant ---------- *)
Section L.
Variables voids inlines phrasings : list bytes.
Notation all_inline := (all_inline voids inlines).
Notation keep_inline := (keep_inline voids inlines phrasings).
Notation fmt_node := (fmt_node voids inlines phrasings).
Definition nws (c : node) : bool := negb (ws_only c).
Lemma ws_only_not_elem c : ws_only c = true -> is_elem c = false.
Proof. destruct c; [reflexivity|discriminate]. Qed.
Lemma exists_elem_filter kids : existsb is_elem (filter nws kids) = existsb is_elem kids.
Proof.
  induction kids as [|c r IH]; [reflexivity|]. cbn [filter existsb]. unfold nws at 1.
  destruct (ws_only c) eqn:E; cbn [negb existsb]; [rewrite (ws_only_not_elem c E); exact IH|now rewrite IH].
Qed.
Lemma all_inline_filter fuel kids : all_inline fuel (filter nws kids) = all_inline fuel kids.
Proof.
  destruct fuel; cbn [Fmt.all_inline]; induction kids as [|c r IH]; try reflexivity;
    cbn [filter forallb]; unfold nws at 1; destruct (ws_only c) eqn:E; cbn [negb forallb];
    try (now rewrite IH); destruct c; try discriminate; cbn; exact IH.
Qed.
Lemma keep_inline_filter fuel t kids : keep_inline fuel t (filter nws kids) = keep_inline fuel t kids.
Proof. unfold Fmt.keep_inline. now rewrite exists_elem_filter, all_inline_filter. Qed.
Lemma filter_nws_idem kids : filter nws (filter nws kids) = filter nws kids.
Proof. induction kids as [|c r IH]; [reflexivity|]. cbn. destruct (nws c) eqn:E; cbn; [rewrite E; now f_equal|exact IH]. Qed.
(* an element laid out in block mode: whitespace-only text nodes among its children - the very pads a
   previous formatting pass inserted - do not change its layout *)
Theorem block_pads_insignificant fuel depth t a kids :
  keep_inline fuel t kids = false ->
  fmt_node (S fuel) depth (Elem t a (filter nws kids)) = fmt_node (S fuel) depth (Elem t a kids).
Proof.
  intro Hk. cbn [Fmt.fmt_node]. fold nws. rewrite filter_nws_idem, keep_inline_filter, Hk. reflexivity.
Qed.
(* a text node in block mode is laid out by its trimmed content alone *)
Lemma dropw_notws s : first_ws s = false -> dropw s = s.
Proof. destruct s as [|c r]; [reflexivity|]. cbn. now intros ->. Qed.
Lemma dropw_first s : first_ws (dropw s) = false.
Proof. induction s as [|c r IH]; [reflexivity|]. cbn [dropw]. destruct (is_uws c) eqn:E; [exact IH|cbn; exact E]. Qed.
Lemma trimw_idem s : trimw (trimw s) = trimw s.
Proof.
  unfold trimw.
  set (u := dropw (rev (dropw s))).
  assert (H1 : first_ws u = false) by apply dropw_first.
  assert (H2 : first_ws (rev u) = false).
  { unfold u. clear. generalize (dropw_first s). generalize (dropw s) as d. intros d Hd.
    (* rev (dropw (rev d)) is a prefix of d with the same head when non-empty *)
    assert (Hp : exists q, rev d = q ++ dropw (rev d) ).
    { generalize (rev d) as x. induction x as [|c x IH]; [now exists []|]. cbn [dropw]. destruct (is_uws c); [|now exists []].
      destruct IH as [q Hq]. exists (c :: q). cbn [app]. now f_equal. }
    destruct Hp as [q Hq]. apply (f_equal (@rev _)) in Hq. rewrite rev_involutive, rev_app_distr in Hq.
    destruct (rev (dropw (rev d))) as [|c r] eqn:E; [reflexivity|]. rewrite Hq in Hd. cbn in Hd |- *. exact Hd. }
  rewrite (dropw_notws _ H2), rev_involutive. rewrite (dropw_notws _ H1). reflexivity.
Qed.
Theorem block_text_trim fuel depth s : fmt_node fuel depth (Text (trimw s)) = fmt_node fuel depth (Text s).
Proof. destruct fuel; [reflexivity|]. cbn [Fmt.fmt_node]. now rewrite trimw_idem. Qed.
End L.
