From V Require Import Base.Bytes Base.Val Model.Truthy.
Lemma truthy_table_partial : forall v, v <> VStr s_false -> truthy v = negb (documented_falsy v).
Proof.
  intros v Hv. destruct v as [|b|k z|w zr s|s|l|l|m|m|m|fs|o]; try reflexivity.
  - destruct b; reflexivity.
  - cbn. destruct zr; reflexivity.
  - destruct s as [|c r]; [reflexivity|]. unfold truthy, documented_falsy.
    assert (E : bytes_eqb (c :: r) s_false = false) by (apply bytes_eqb_neq; congruence).
    rewrite E. reflexivity.
Qed.
Lemma truthy_table_refuted : exists v, documented_falsy v = false /\ truthy v = false.
Proof. exists (VStr s_false). vm_compute. auto. Qed.
Lemma truthy_uniform : forall p q o, p <> PNotIf -> q <> PNotIf -> effect p o = effect q o.
Proof. intros p q o Hp Hq. destruct p, q; try congruence; reflexivity. Qed.
