(* C19 — the formatter's output, tokenized, has exactly the skeleton of the tree it was laid out from:
   the same elements in the same order with the same attribute names, whatever bytes the text nodes and
   attribute values hold, for every tree, every element table and both layout modes. *)
From Coq Require Import List Bool Arith Lia.
Import ListNotations.
From V Require Import Base.Bytes Model.Escape Proofs.EscapeP Model.Tok Proofs.TokP Model.Fmt Proofs.FmtP Proofs.TokSim.

Section Gen.
Variable X : Type.
Variable pr : token -> list X.
Hypothesis pr_text : forall r, pr (TText r) = [].
Notation okd := (TokSim.okd X pr).
Notation proj := (TokSim.proj X pr).
Let okd_nil := TokSim.okd_nil X pr.
Let okd_app := TokSim.okd_app X pr.
Let okd_plain := TokSim.okd_plain X pr.
Let okd_from_one := TokSim.okd_from_one X pr pr_text.
Let okd_safe := TokSim.okd_safe X pr.
Let proj_app := TokSim.proj_app X pr.
Let proj_emit_text := TokSim.proj_emit_text X pr pr_text.

(* ---- trimming ---- *)
Lemma dropw_decomp s : exists q, uws_only q = true /\ s = q ++ dropw s.
Proof.
  induction s as [|c s IH]; [exists []; split; reflexivity|]. cbn [dropw]. destruct (is_uws c) eqn:E.
  - destruct IH as (q & Hq & Hs). exists (c :: q). split; [unfold uws_only in *; cbn [forallb]; now rewrite E, Hq|cbn [app]; now f_equal].
  - exists []. split; reflexivity.
Qed.
Lemma uws_only_rev q : uws_only (rev q) = uws_only q.
Proof.
  unfold uws_only. induction q as [|c q IH]; [reflexivity|]. cbn [rev forallb]. rewrite forallb_app, IH. cbn. now rewrite andb_true_r, andb_comm.
Qed.
Lemma trimw_decomp x : exists w1 w2, uws_only w1 = true /\ uws_only w2 = true /\ x = w1 ++ trimw x ++ w2.
Proof.
  destruct (dropw_decomp x) as (w1 & H1 & E1). destruct (dropw_decomp (rev (dropw x))) as (q & Hq & E2).
  exists w1, (rev q). split; [exact H1|split; [now rewrite uws_only_rev|]].
  unfold trimw. rewrite E1 at 1. f_equal.
  apply (f_equal (@rev _)) in E2. rewrite rev_involutive, rev_app_distr in E2. exact E2.
Qed.

(* trimming the whitespace at the two ends of a data-state string keeps its property *)
Lemma run_to_open s y t o : run s y = (TagOpen t, o) -> y <> [] -> exists y', y = y' ++ [x3c].
Proof.
  intros Hr Hy. destruct y as [|c y] using rev_ind; [congruence|]. clear IHy Hy.
  rewrite run_app in Hr. destruct (run s y) as [s1 o1]. cbn [run] in Hr. destruct (step s1 c) as [s2 o2] eqn:Es.
  injection Hr as -> _. assert (c = x3c) by (apply (step_to_open s1 c t); now rewrite Es). subst c. eauto.
Qed.
Lemma okd_trim x S : okd x S -> lt_ok x -> okd (trimw x) S /\ lt_ok (trimw x).
Proof.
  intros Hx Hl. destruct (trimw_decomp x) as (w1 & w2 & H1 & H2 & E). split.
  - destruct (Hx []) as (t' & out & Hr & Hs). rewrite E in Hr. rewrite run_app in Hr.
    rewrite (data_inert [] w1 (uws_no_lt w1 H1)) in Hr. rewrite run_app in Hr.
    destruct (run (Data ([] ++ w1)) (trimw x)) as [s1 o1] eqn:Ec. destruct (run s1 w2) as [s2 o2] eqn:Ew.
    injection Hr as -> <-. destruct (ws_run w2 H2 s1 t' o2 Ew) as [-> Hs1].
    destruct Hs1 as [[t1 ->]|[Hne [t1 ->]]].
    + apply (okd_from_one _ _ _ _ _ Ec). now rewrite app_nil_r in Hs.
    + exfalso. destruct (trimw x) as [|c0 tr] eqn:Et.
      * cbn in Ec. discriminate.
      * destruct (run_to_open _ _ _ _ Ec ltac:(discriminate)) as [y' Ey].
        rewrite Ey in E. assert (Hf : uws_only w2 = false).
        { apply (Hl (w1 ++ y') w2). rewrite E. now rewrite <- !app_assoc. }
        congruence.
  - intros pre post Ep. assert (Hx2 : uws_only (post ++ w2) = false).
    { apply (Hl (w1 ++ pre)). rewrite E, Ep. now rewrite <- !app_assoc. }
    rewrite uws_only_app, H2, andb_true_r in Hx2. exact Hx2.
Qed.

(* ---- text pieces ---- *)
Definition piece (y : bytes) : Prop := okd y [] /\ lt_ok y.
Lemma piece_nil : piece []. Proof. split; [apply okd_nil|apply lt_ok_plain; tauto]. Qed.
Lemma piece_app a b : piece a -> piece b -> piece (a ++ b).
Proof. intros [A1 A2] [B1 B2]. split; [apply (okd_app a b [] [] A1 B1)|now apply lt_ok_app]. Qed.
Lemma piece_plain y : ~ In x3c y -> piece y.
Proof. intro H. split; [now apply okd_plain|now apply lt_ok_plain]. Qed.
Lemma esc_t1_no_lt c : ~ In x3c (esc_t1 c).
Proof.
  unfold esc_t1. bcase c x26; [cbn; intuition discriminate|]. bcase c x3c; [cbn; intuition discriminate|].
  bcase c x3e; [cbn; intuition discriminate|]. intros [E|[]]. congruence.
Qed.
Lemma esc_must_cons a q : q <> [] -> exists h, esc_must (a :: q) = h ++ esc_must q.
Proof.
  intro Hq. destruct q as [|b r]; [congruence|]. cbn [esc_must].
  destruct (beq a x3c && tag_start b); [exists (bs "&lt;")|exists [a]]; reflexivity.
Qed.
Lemma esc_must_last y c : exists z, esc_must (y ++ [c]) = z ++ [c].
Proof.
  induction y as [|a y IH]; [exists []; reflexivity|]. cbn [app].
  destruct (esc_must_cons a (y ++ [c])) as [h Hh]; [destruct y; discriminate|].
  destruct IH as [z Hz]. rewrite Hh, Hz. exists (h ++ z). now rewrite <- app_assoc.
Qed.
Lemma piece_region r : piece (esc_must (r ++ [x7d])).
Proof.
  destruct (esc_must_last r x7d) as [z Hz]. split.
  - apply okd_safe; [apply esc_must_inert|]. rewrite Hz, ends_lt_snoc. reflexivity.
  - rewrite Hz. apply lt_ok_last; reflexivity.
Qed.
Lemma piece_esc_text fuel : forall s, piece (esc_text fuel s).
Proof.
  induction fuel as [|f IH]; intro s; cbn [esc_text]; [apply piece_nil|].
  destruct s as [|a r]; [apply piece_nil|]. destruct r as [|b r'].
  - apply piece_plain, esc_t1_no_lt.
  - destruct (beq a x7b && beq b x7b).
    + destruct (find_close r' []) as [[inside rest]|].
      * apply piece_app; [|apply IH].
        replace ([x7b; x7b] ++ inside ++ [x7d; x7d]) with ((x7b :: x7b :: inside ++ [x7d]) ++ [x7d])
          by (cbn; now rewrite <- app_assoc).
        apply piece_region.
      * apply piece_app; [apply piece_plain, esc_t1_no_lt|apply IH].
    + apply piece_app; [apply piece_plain, esc_t1_no_lt|apply IH].
Qed.
Lemma spaces_no_lt n : ~ In x3c (spaces n).
Proof. unfold spaces. intro H. apply repeat_spec in H. discriminate. Qed.

(* ---- tags ---- *)
Definition astate (s : st) (e : bool) (n : bytes) (a : attrs) : Prop :=
  (s = TagName e n /\ a = []) \/ s = AfterAVq e n a \/ (exists a0 an, s = AttrN e n a0 an /\ a = a0 ++ [(an, [])]).

(* the attribute a tokenizer reads back: the name, and the written value (escaped, whitespace collapsed) *)
Definition wattr (kv : bytes * bytes) : bytes * bytes :=
  (fst kv, let v := format_attr (snd kv) in if Fmt.nonempty v then escape_attr v else []).
Lemma fmt_attr_run s e n a k val : astate s e n a -> wf_key k = true ->
  exists s', run s (fmt_attr (k, val)) = (s', []) /\ astate s' e n (a ++ [wattr (k, val)]).
Proof.
  intros Hs Hk. unfold fmt_attr, wattr. cbn [fst snd]. set (v := format_attr val).
  destruct k as [|c k]; [discriminate|]. cbn [wf_key] in Hk. apply andb_true_iff in Hk. destruct Hk as [Hc Hk].
  pose proof (anamech_inv _ Hc) as (H1 & H2 & H3 & H4).
  assert (Hsp : forall rest, run s ([x20] ++ (c :: k) ++ rest) = run (AttrN e n a [c]) (k ++ rest)).
  { intro rest. destruct Hs as [[-> ->]|[->|(a0 & an & -> & ->)]]; cbn [app]; stp; red_tests; stp;
      rewrite ?H1, ?H2, ?H3, ?H4; cbn [orb]; cbv beta iota;
      destruct (run _ _); reflexivity. }
  rewrite Hsp. rewrite run_app, attrn_run by assumption. cbv beta iota. cbn [app].
  destruct (nonempty v) eqn:Ev.
  - stp. red_tests. stp. red_tests. rewrite run_app, FmtP.escape_attr_inert. cbv beta iota. cbn [app].
    stp. red_tests. cbn [run app]. exists (AfterAVq e n (a ++ [(c :: k, escape_attr v)])).
    split; [reflexivity|]. right. left. reflexivity.
  - cbn [run]. exists (AttrN e n a (c :: k)). split; [reflexivity|]. right. right. exists a, (c :: k). split; reflexivity.
Qed.
Lemma fmt_attrs_run e n l : forall s a, astate s e n a -> forallb (fun kv => wf_key (fst kv)) l = true ->
  exists s', run s (flat_map fmt_attr l) = (s', []) /\ astate s' e n (a ++ map wattr l).
Proof.
  induction l as [|[k val] l IH]; intros s a Hs Hw.
  - exists s. cbn. rewrite app_nil_r. auto.
  - cbn [forallb fst] in Hw. apply andb_true_iff in Hw. destruct Hw as [Hk Hw]. cbn [flat_map].
    destruct (fmt_attr_run s e n a k val Hs Hk) as (s1 & Hr1 & Hs1).
    destruct (IH s1 _ Hs1 Hw) as (s2 & Hr2 & Hs2). rewrite run_app, Hr1, Hr2.
    exists s2. split; [reflexivity|]. cbn [map]. now rewrite <- app_assoc in Hs2.
Qed.
Lemma aclose_run s e n a : astate s e n a -> run s [x3e] = (Data [], emit_tag e n a).
Proof.
  intros [[-> ->]|[->|(a0 & an & -> & ->)]]; stp; red_tests; cbn [run]; rewrite ?app_nil_r; reflexivity.
Qed.
Lemma fmt_open_okd t a : wf_tag t = true -> forallb (fun kv => wf_key (fst kv)) a = true ->
  okd (fmt_open t a) (pr (TStart t (map wattr a))).
Proof.
  intros Ht Ha txt. unfold fmt_open. destruct t as [|c t]; [discriminate|]. cbn [wf_tag] in Ht.
  apply andb_true_iff in Ht. destruct Ht as [Hc Ht].
  cbn [app]. stp. red_tests. stp. rewrite Hc. cbv beta iota.
  rewrite run_app, tagname_run by assumption. cbv beta iota. cbn [app].
  destruct (fmt_attrs_run false (c :: t) a (TagName false (c :: t)) []) as (s' & Hr & Hs');
    [left; auto|assumption|].
  rewrite run_app, Hr. cbv beta iota. rewrite (aclose_run _ _ _ _ Hs'). cbn [app].
  eexists _, _. split; [reflexivity|].
  rewrite proj_app, proj_emit_text. cbn. now rewrite app_nil_r.
Qed.
Lemma fmt_close_okd t : wf_tag t = true -> okd (fmt_close t) (pr (TEnd t)).
Proof.
  intros Ht txt. unfold fmt_close. destruct t as [|c t]; [discriminate|]. cbn [wf_tag] in Ht.
  apply andb_true_iff in Ht. destruct Ht as [Hc Ht].
  cbn [app]. stp. red_tests. stp.
  assert (Hna : is_alpha x2f = false) by reflexivity. rewrite Hna. red_tests.
  stp. rewrite Hc. cbv beta iota.
  rewrite run_app, tagname_run by assumption. cbv beta iota. stp. red_tests. cbn [run].
  eexists _, _. split; [reflexivity|].
  cbn [app]. rewrite !proj_app, proj_emit_text. cbn [app emit_tag]. unfold TokSim.proj. cbn [flat_map]. now rewrite !app_nil_r.
Qed.
Lemma last_gt y : lt_ok (y ++ [x3e]).
Proof. apply lt_ok_last; reflexivity. Qed.
Lemma fmt_open_lt t a : lt_ok (fmt_open t a).
Proof. unfold fmt_open. rewrite !app_assoc. apply last_gt. Qed.
Lemma fmt_close_lt t : lt_ok (fmt_close t).
Proof. unfold fmt_close. rewrite !app_assoc. apply last_gt. Qed.

(* ---- the layout ---- *)
Section L.
Variables voids inlines phrasings : list bytes.
Notation inline_children := (inline_children voids).
Notation fmt_node := (fmt_node voids inlines phrasings).
Notation mem := Fmt.mem.
(* the tags of a tree as the formatter writes them: attribute values escaped with whitespace collapsed,
   a void element without end tag and content *)
Fixpoint ftok (n : node) : list token :=
  match n with
  | Text _ => []
  | Elem t a k => TStart t (map wattr a) :: (if mem t voids then [] else flat_map ftok k ++ [TEnd t])
  end.
Definition fskel (n : node) : list X := proj (ftok n).
Lemma fskel_text s : fskel (Text s) = []. Proof. reflexivity. Qed.
Lemma proj_flat k : proj (flat_map ftok k) = flat_map fskel k.
Proof. induction k as [|x r IH]; [reflexivity|]. cbn [flat_map]. now rewrite proj_app, IH. Qed.
Lemma proj_cons x r : proj (x :: r) = pr x ++ proj r.
Proof. reflexivity. Qed.
Lemma fskel_elem t a k : fskel (Elem t a k) =
  pr (TStart t (map wattr a)) ++ (if mem t voids then [] else flat_map fskel k ++ pr (TEnd t)).
Proof.
  unfold fskel at 1. cbn [ftok]. rewrite proj_cons. f_equal. destruct (mem t voids); [reflexivity|].
  rewrite proj_app, proj_flat. f_equal. rewrite proj_cons. cbn. now rewrite app_nil_r.
Qed.

Lemma depth_kid x k : In x k -> depthn x <= forest_depth k.
Proof. unfold forest_depth. induction k as [|y r IH]; cbn; [tauto|]. intros [->|H]; [lia|]. specialize (IH H). lia. Qed.
Lemma forest_depth_cons x k : forest_depth (x :: k) = Nat.max (depthn x) (forest_depth k).
Proof. reflexivity. Qed.
Lemma depthn_pos n : 1 <= depthn n.
Proof. destruct n; cbn; lia. Qed.
Lemma fskel_filter kids : flat_map fskel (filter nws kids) = flat_map fskel kids.
Proof.
  induction kids as [|c r IH]; [reflexivity|]. cbn [filter flat_map]. unfold nws at 1.
  destruct (ws_only c) eqn:E; cbn [negb flat_map]; [|now rewrite IH].
  destruct c; [rewrite fskel_text; exact IH|discriminate].
Qed.

Lemma okd_app_r a b S : okd a S -> okd b [] -> okd (a ++ b) S.
Proof. intros Ha Hb. rewrite <- (app_nil_r S). now apply okd_app. Qed.

Definition Q (fuel : nat) : Prop := forall kids, forest_depth kids <= fuel -> forallb wf kids = true ->
  okd (inline_children fuel kids) (flat_map fskel kids) /\ lt_ok (inline_children fuel kids).
Definition P (fuel : nat) : Prop := forall depth n, depthn n <= fuel -> wf n = true ->
  okd (fmt_node fuel depth n) (fskel n).

Lemma Q_step f : Q f -> Q (S f).
Proof.
  intros IH kids Hd Hw. cbn [Fmt.inline_children].
  set (inl := fun c : node => match c with
                  | Text s => escape_text (normalize_inline s)
                  | Elem t a k => fmt_open t a ++ (if mem t voids then [] else inline_children f k ++ fmt_close t)
                  end).
  assert (HX : okd (flat_map inl kids) (flat_map fskel kids) /\ lt_ok (flat_map inl kids)).
  { induction kids as [|c r IHr]; [split; [apply okd_nil|apply lt_ok_plain; tauto]|].
    cbn [forallb] in Hw. apply andb_true_iff in Hw. destruct Hw as [Hwc Hwr].
    rewrite forest_depth_cons in Hd.
    destruct IHr as [R1 R2]; [lia|assumption|]. cbn [flat_map].
    assert (HC : okd (inl c) (fskel c) /\ lt_ok (inl c)).
    { destruct c as [s|t a k]; cbn [inl]; [rewrite fskel_text|rewrite fskel_elem].
      - destruct (piece_esc_text (S (length (normalize_inline s))) (normalize_inline s)) as [A B]. split; assumption.
      - cbn [wf] in Hwc. apply andb_true_iff in Hwc. destruct Hwc as [Hwc Hk].
        apply andb_true_iff in Hwc. destruct Hwc as [Ht Ha].
        pose proof (fmt_open_okd t a Ht Ha) as Ho.
        destruct (mem t voids).
        + rewrite !app_nil_r. split; [exact Ho|apply fmt_open_lt].
        + destruct (IH k) as [K1 K2]; [cbn [depthn] in Hd; fold (forest_depth k) in Hd; lia|exact Hk|].
          split.
          * apply (okd_app _ _ (pr (TStart t (map wattr a))) (flat_map fskel k ++ (pr (TEnd t))) Ho).
            apply (okd_app _ _ _ (pr (TEnd t)) K1 (fmt_close_okd t Ht)).
          * apply lt_ok_app; [apply fmt_open_lt|apply lt_ok_app; [exact K2|apply fmt_close_lt]]. }
    destruct HC as [C1 C2]. split; [now apply okd_app|now apply lt_ok_app]. }
  destruct HX as [X1 X2]. exact (okd_trim _ _ X1 X2).
Qed.
Lemma Q_all : forall f, Q f.
Proof.
  induction f as [|f IH]; [|now apply Q_step].
  intros kids Hd Hw. destruct kids as [|c r].
  - cbn. split; [apply okd_nil|apply lt_ok_plain; tauto].
  - exfalso. rewrite forest_depth_cons in Hd. pose proof (depthn_pos c). lia.
Qed.

Lemma P_step f : P f -> P (S f).
Proof.
  intros IH depth n Hd Hw. destruct n as [s|t a kids]; cbn [Fmt.fmt_node]; [rewrite fskel_text|rewrite fskel_elem].
  - destruct (Fmt.nonempty (trimw s)); [|apply okd_nil].
    destruct (piece_esc_text (S (length (trimw s))) (trimw s)) as [A _].
    apply (okd_app _ _ [] [] (okd_plain _ (spaces_no_lt _))).
    apply (okd_app _ _ [] [] A). apply okd_plain. intros [E|[]]. discriminate.
  - cbn [wf] in Hw. apply andb_true_iff in Hw. destruct Hw as [Hw Hk].
    apply andb_true_iff in Hw. destruct Hw as [Ht Ha].
    assert (Hnl : okd [x0a] []) by (apply okd_plain; intros [E|[]]; discriminate).
    apply (okd_app _ _ [] _ (okd_plain _ (spaces_no_lt _))).
    apply (okd_app _ _ (pr (TStart t (map wattr a))) _ (fmt_open_okd t a Ht Ha)).
    destruct (mem t voids); [exact Hnl|].
    assert (Hdk : forest_depth kids <= f) by (cbn [depthn] in Hd; fold (forest_depth kids) in Hd; lia).
    destruct (filter (fun c => negb (ws_only c)) kids) as [|c0 cr] eqn:Ef.
    + assert (Hz : flat_map fskel kids = []).
      { rewrite <- fskel_filter. unfold nws. now rewrite Ef. }
      rewrite Hz. cbn [app]. apply (okd_app_r _ _ _ (fmt_close_okd t Ht) Hnl).
    + destruct (Fmt.keep_inline voids inlines phrasings f t kids).
      * destruct (Q_all f kids Hdk Hk) as [K1 _].
        apply (okd_app _ _ _ (pr (TEnd t)) K1). apply (okd_app_r _ _ _ (fmt_close_okd t Ht) Hnl).
      * rewrite <- Ef. rewrite <- (fskel_filter kids). fold nws.
        apply (okd_app _ _ [] _ Hnl).
        assert (Hkids : okd (flat_map (fmt_node f (S depth)) (filter nws kids)) (flat_map fskel (filter nws kids))).
        { assert (Hin : forall x, In x (filter nws kids) -> depthn x <= f /\ wf x = true).
          { intros x Hx. apply filter_In in Hx. destruct Hx as [Hx _]. split.
            - pose proof (depth_kid x kids Hx). lia.
            - rewrite forallb_forall in Hk. now apply Hk. }
          induction (filter nws kids) as [|x r IHr]; [apply okd_nil|]. cbn [flat_map].
          apply okd_app; [apply IH; apply Hin; now left|apply IHr; intros y Hy; apply Hin; now right]. }
        apply (okd_app _ _ _ (pr (TEnd t)) Hkids).
        apply (okd_app _ _ [] (pr (TEnd t)) (okd_plain _ (spaces_no_lt _))).
        apply (okd_app_r _ _ _ (fmt_close_okd t Ht) Hnl).
Qed.
Lemma P_all : forall f, P f.
Proof.
  induction f as [|f IH]; [|now apply P_step].
  intros depth n Hd _. pose proof (depthn_pos n). lia.
Qed.

(* whatever bytes the text nodes and attribute values of a tree hold, and whichever layout each element
   gets, tokenizing the formatted text yields exactly the tree's elements in order with their attribute
   names (void elements without an end tag) *)
Theorem fmt_tokens n depth : wf n = true ->
  proj (snd (run (Data []) (fmt_node (S (depthn n)) depth n))) = proj (ftok n).
Proof.
  intro Hw. destruct (P_all (S (depthn n)) depth n ltac:(lia) Hw []) as (t & o & Hr & Hs). now rewrite Hr.
Qed.
End L.
End Gen.

(* ---- the two instances ---- *)
Definition tag1 (t : token) : list token := match t with TText _ => [] | x => [x] end.
Definition tags (l : list token) : list token := flat_map tag1 l.
Lemma tags_ftok voids n : tags (ftok voids n) = ftok voids n.
Proof.
  induction n as [s|t a k IH] using node_ind'; [reflexivity|]. cbn [ftok]. unfold tags. cbn [flat_map tag1 app]. f_equal.
  destruct (Fmt.mem t voids); [reflexivity|]. fold (tags (flat_map (ftok voids) k ++ [TEnd t])).
  unfold tags. rewrite flat_map_app. cbn. f_equal.
  induction IH as [|x r Hx _ IHr]; [reflexivity|]. cbn [flat_map]. rewrite flat_map_app. fold (tags (ftok voids x)). now rewrite Hx, IHr.
Qed.
(* whatever bytes the text nodes and attribute values of a tree hold, and whichever layout each element
   gets, the tags a tokenizer finds in the formatted text are exactly the tree's: every element in order, every
   attribute in order with its name and its written value (escaped, whitespace collapsed), void elements
   without an end tag *)
Theorem fmt_tags voids inlines phrasings n depth : wf n = true ->
  tags (snd (run (Data []) (fmt_node voids inlines phrasings (S (depthn n)) depth n))) = ftok voids n.
Proof.
  intro Hw. rewrite <- (tags_ftok voids n).
  exact (fmt_tokens token tag1 (fun _ => eq_refl) voids inlines phrasings n depth Hw).
Qed.
Theorem fmt_skeleton voids inlines phrasings n depth : wf n = true ->
  skel (snd (run (Data []) (fmt_node voids inlines phrasings (S (depthn n)) depth n))) = skel (ftok voids n).
Proof. intro Hw. exact (fmt_tokens sk skel1 (fun _ => eq_refl) voids inlines phrasings n depth Hw). Qed.
(* ... and a written value decodes to the formatted value *)
Lemma wattr_decodes kv : dec_attr (length (snd (wattr kv))) (snd (wattr kv)) = format_attr (snd kv).
Proof.
  unfold wattr. cbn [snd]. destruct (format_attr (snd kv)) as [|c v] eqn:E; [reflexivity|].
  cbn [Fmt.nonempty]. apply dec_escape_attr. lia.
Qed.
