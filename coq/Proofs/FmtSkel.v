(* C19 — the formatter's output, tokenized, has exactly the skeleton of the tree it was laid out from:
   the same elements in the same order with the same attribute names, whatever bytes the text nodes and
   attribute values hold, for every tree, every element table and both layout modes. *)
From Coq Require Import List Bool Arith Lia.
Import ListNotations.
From V Require Import Base.Bytes Model.Escape Proofs.EscapeP Model.Tok Proofs.TokP Model.Fmt Proofs.FmtP Proofs.TokSim.

(* ---- trimming ---- *)
Lemma dropw_decomp s : exists q, uws_only q = true /\ s = q ++ dropw s.
Proof.
  induction s as [|c s IH]; [exists []; split; reflexivity|]. cbn [dropw]. destruct (is_uws c) eqn:E.
  - destruct IH as (q & Hq & Hs). exists (c :: q). split; [unfold uws_only in *; cbn [forallb]; now rewrite E, Hq|cbn [app]; now f_equal].
  - exists []. split; reflexivity.
Qed.
Lemma uws_only_rev q : uws_only (rev q) = uws_only q.
Proof.
  unfold uws_only. induction q as [|c q IH]; [reflexivity|]. cbn [rev forallb]. rewrite forallb_app, IH. cbn. now rewrite andb_true_r, andb_comm.
Qed.
Lemma trimw_decomp x : exists w1 w2, uws_only w1 = true /\ uws_only w2 = true /\ x = w1 ++ trimw x ++ w2.
Proof.
  destruct (dropw_decomp x) as (w1 & H1 & E1). destruct (dropw_decomp (rev (dropw x))) as (q & Hq & E2).
  exists w1, (rev q). split; [exact H1|split; [now rewrite uws_only_rev|]].
  unfold trimw. rewrite E1 at 1. f_equal.
  apply (f_equal (@rev _)) in E2. rewrite rev_involutive, rev_app_distr in E2. exact E2.
Qed.

(* trimming the whitespace at the two ends of a data-state string keeps its property *)
Lemma run_to_open s y t o : run s y = (TagOpen t, o) -> y <> [] -> exists y', y = y' ++ [x3c].
Proof.
  intros Hr Hy. destruct y as [|c y] using rev_ind; [congruence|]. clear IHy Hy.
  rewrite run_app in Hr. destruct (run s y) as [s1 o1]. cbn [run] in Hr. destruct (step s1 c) as [s2 o2] eqn:Es.
  injection Hr as -> _. assert (c = x3c) by (apply (step_to_open s1 c t); now rewrite Es). subst c. eauto.
Qed.
Lemma okd_trim x S : okd x S -> lt_ok x -> okd (trimw x) S /\ lt_ok (trimw x).
Proof.
  intros Hx Hl. destruct (trimw_decomp x) as (w1 & w2 & H1 & H2 & E). split.
  - destruct (Hx []) as (t' & out & Hr & Hs). rewrite E in Hr. rewrite run_app in Hr.
    rewrite (data_inert [] w1 (uws_no_lt w1 H1)) in Hr. rewrite run_app in Hr.
    destruct (run (Data ([] ++ w1)) (trimw x)) as [s1 o1] eqn:Ec. destruct (run s1 w2) as [s2 o2] eqn:Ew.
    injection Hr as -> <-. destruct (ws_run w2 H2 s1 t' o2 Ew) as [-> Hs1].
    destruct Hs1 as [[t1 ->]|[Hne [t1 ->]]].
    + apply (okd_from_one _ _ _ _ _ Ec). now rewrite app_nil_r in Hs.
    + exfalso. destruct (trimw x) as [|c0 tr] eqn:Et.
      * cbn in Ec. discriminate.
      * destruct (run_to_open _ _ _ _ Ec ltac:(discriminate)) as [y' Ey].
        rewrite Ey in E. assert (Hf : uws_only w2 = false).
        { apply (Hl (w1 ++ y') w2). rewrite E. now rewrite <- !app_assoc. }
        congruence.
  - intros pre post Ep. assert (Hx2 : uws_only (post ++ w2) = false).
    { apply (Hl (w1 ++ pre)). rewrite E, Ep. now rewrite <- !app_assoc. }
    rewrite uws_only_app, H2, andb_true_r in Hx2. exact Hx2.
Qed.

(* ---- text pieces ---- *)
Definition piece (y : bytes) : Prop := okd y [] /\ lt_ok y.
Lemma piece_nil : piece []. Proof. split; [apply okd_nil|apply lt_ok_plain; tauto]. Qed.
Lemma piece_app a b : piece a -> piece b -> piece (a ++ b).
Proof. intros [A1 A2] [B1 B2]. split; [apply (okd_app a b [] [] A1 B1)|now apply lt_ok_app]. Qed.
Lemma piece_plain y : ~ In x3c y -> piece y.
Proof. intro H. split; [now apply okd_plain|now apply lt_ok_plain]. Qed.
Lemma esc_t1_no_lt c : ~ In x3c (esc_t1 c).
Proof.
  unfold esc_t1. bcase c x26; [cbn; intuition discriminate|]. bcase c x3c; [cbn; intuition discriminate|].
  bcase c x3e; [cbn; intuition discriminate|]. intros [E|[]]. congruence.
Qed.
Lemma esc_must_last y c : exists z, esc_must (y ++ [c]) = z ++ [c].
Proof.
  induction y as [|a y IH]; [exists []; reflexivity|]. cbn [app esc_must].
  destruct (y ++ [c]) as [|b r] eqn:E; [destruct y; discriminate|]. rewrite <- E. destruct IH as [z Hz].
  destruct (beq a x3c && tag_start b); rewrite Hz.
  - exists (bs "&lt;" ++ z). now rewrite <- app_assoc.
  - exists (a :: z). reflexivity.
Qed.
Lemma piece_region r : piece (esc_must (r ++ [x7d])).
Proof.
  destruct (esc_must_last r x7d) as [z Hz]. split.
  - apply okd_safe; [apply esc_must_inert|]. rewrite Hz, ends_lt_snoc. reflexivity.
  - rewrite Hz. apply lt_ok_last; reflexivity.
Qed.
Lemma piece_esc_text fuel : forall s, piece (esc_text fuel s).
Proof.
  induction fuel as [|f IH]; intro s; cbn [esc_text]; [apply piece_nil|].
  destruct s as [|a r]; [apply piece_nil|]. destruct r as [|b r'].
  - apply piece_plain, esc_t1_no_lt.
  - destruct (beq a x7b && beq b x7b).
    + destruct (find_close r' []) as [[inside rest]|].
      * apply piece_app; [|apply IH].
        replace ([x7b; x7b] ++ inside ++ [x7d; x7d]) with ((x7b :: x7b :: inside ++ [x7d]) ++ [x7d])
          by (cbn; now rewrite <- app_assoc).
        apply piece_region.
      * apply piece_app; [apply piece_plain, esc_t1_no_lt|apply IH].
    + apply piece_app; [apply piece_plain, esc_t1_no_lt|apply IH].
Qed.
Lemma spaces_no_lt n : ~ In x3c (spaces n).
Proof. unfold spaces. intro H. apply repeat_spec in H. discriminate. Qed.
