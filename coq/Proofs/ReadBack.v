From V Require Import Base.Bytes Model.Escape Proofs.EscapeP Model.Tok Proofs.TokP Proofs.RoundTrip Proofs.Padded Proofs.Pretty.
Lemma esc1_head_not_ws c : is_hws c = false -> exists h t, esc1 c = h :: t /\ is_hws h = false.
Proof.
  intro H. unfold esc1.
  bcase c x26; [exists x26, (tl r_amp); split; reflexivity|].
  bcase c x27; [exists x26, (tl r_39); split; reflexivity|].
  bcase c x3c; [exists x26, (tl r_lt); split; reflexivity|].
  bcase c x3e; [exists x26, (tl r_gt); split; reflexivity|].
  bcase c x22; [exists x26, (tl r_34); split; reflexivity|].
  exists c, []. auto.
Qed.
Lemma esc1_last_not_ws c : is_hws c = false -> exists i l, esc1 c = i ++ [l] /\ is_hws l = false.
Proof.
  intro H. unfold esc1.
  bcase c x26; [exists (removelast r_amp), x3b; split; reflexivity|].
  bcase c x27; [exists (removelast r_39), x3b; split; reflexivity|].
  bcase c x3c; [exists (removelast r_lt), x3b; split; reflexivity|].
  bcase c x3e; [exists (removelast r_gt), x3b; split; reflexivity|].
  bcase c x22; [exists (removelast r_34), x3b; split; reflexivity|].
  exists [], c. auto.
Qed.

Definition trimmed (s : bytes) : Prop :=
  match s with [] => False | c :: _ => is_hws c = false end /\
  match rev s with [] => False | c :: _ => is_hws c = false end.

Lemma dropws_head c r : is_hws c = false -> hdropws (c :: r) = c :: r.
Proof. intro H. cbn. now rewrite H. Qed.
Lemma htrim_trimmed s : trimmed s -> htrim s = s.
Proof.
  intros [Hh Hl]. unfold htrim. destruct s as [|c r]; [destruct Hh|]. rewrite (dropws_head c r Hh).
  destruct (rev (c :: r)) as [|l i] eqn:E; [destruct Hl|]. rewrite (dropws_head l i Hl), <- E. apply rev_involutive.
Qed.
Lemma escape_trimmed s : trimmed s -> trimmed (escape s).
Proof.
  intros [Hh Hl]. split.
  - destruct s as [|c r]; [destruct Hh|]. rewrite escape_cons.
    destruct (esc1_head_not_ws c Hh) as (h & t & -> & Hw). exact Hw.
  - destruct (rev s) as [|l i] eqn:E; [destruct Hl|].
    assert (Hs : s = rev i ++ [l]) by (rewrite <- (rev_involutive s), E; reflexivity).
    rewrite Hs, escape_app. cbn [escape flat_map]. rewrite app_nil_r.
    destruct (esc1_last_not_ws l Hl) as (ii & ll & -> & Hw).
    rewrite app_assoc, rev_app_distr. cbn. exact Hw.
Qed.

(* canonical forests *)
Fixpoint canonical (fuel : nat) (n : node) : Prop :=
  match fuel with O => False | S f =>
  match n with
  | Text s => trimmed s
  | Elem _ _ k => Forall (canonical f) k
  end end.

Lemma norm_flat_canonical f : forall n, canonical f n -> norm (flat n) = flat n.
Proof.
  induction f as [|f IH]; intros n H; [destruct H|]. destruct n as [s | t a k]; cbn [canonical] in H.
  - cbn [flat norm flat_map norm1]. rewrite (htrim_trimmed _ (escape_trimmed _ H)).
    destruct (escape s) eqn:E; [|reflexivity]. destruct (escape_trimmed _ H) as [Hh _]. rewrite E in Hh. destruct Hh.
  - cbn [flat]. change (TStart t (esc_attrs a) :: flat_map flat k ++ [TEnd t]) with ([TStart t (esc_attrs a)] ++ flat_map flat k ++ [TEnd t]).
    rewrite !norm_app. cbn [norm flat_map norm1 app]. f_equal. f_equal.
    induction H as [|x r Hx _ IHr]; [reflexivity|]. cbn [flat_map]. rewrite norm_app, (IH _ Hx), IHr. reflexivity.
Qed.

Definition read (o : bytes) : option (list node) := build (norm (tokens o)) [] [].

Theorem read_back k o f : PSF k o -> forallb wf k = true -> nf_list nf k = true -> Forall (canonical f) k ->
  read o = Some k.
Proof.
  intros Hp Hw Hn Hc. unfold read. rewrite (padded_forest k o Hp Hw Hn).
  assert (Hnorm : norm (flat_map flat k) = flat_map flat k).
  { clear -Hc. induction Hc as [|x r Hx _ IH]; [reflexivity|]. cbn [flat_map]. rewrite norm_app, (norm_flat_canonical _ _ Hx), IH. reflexivity. }
  rewrite Hnorm, <- (app_nil_r (flat_map flat k)), build_forest.
  - cbn. now rewrite app_nil_r, rev_involutive.
  - apply Forall_forall. intros n _. apply build_node.
Qed.

(* instance: the engine's pretty printer at any indentation *)
Corollary pretty_read_back n ind f :
  strip (depth n) n = [n] -> wf n = true -> nf n = true -> canonical f n ->
  read (pretty (depth n) ind n) = Some [n].
Proof.
  intros Hs Hw Hn Hc. apply (read_back [n] _ f).
  - rewrite <- Hs. apply pretty_is_padded. lia.
  - cbn. now rewrite Hw.
  - cbn. rewrite Hn. destruct (is_text n); reflexivity.
  - constructor; [assumption|constructor].
Qed.


(* for EVERY tree (text untrimmed, whitespace-only text nodes anywhere): what is read from the pretty
   printer's output is what is read from the plain serialisation of the whitespace-stripped tree *)
Corollary pretty_faithful n ind :
  let d := strip (depth n) n in
  forallb wf d = true -> nf_list nf d = true ->
  read (pretty (depth n) ind n) = read (flat_map ser d).
Proof.
  intros d Hw Hn. unfold read. rewrite (pretty_tokens n ind Hw Hn).
  fold d. now rewrite (tokens_flat d Hw Hn).
Qed.
