(* C03 — conditional chains and uniform truthiness.  Theorems only. *)
From V Require Import Base.Bytes Base.Val Model.Chain Proofs.ChainP Model.Truthy Proofs.TruthyP.

(* 1-3. the index arithmetic of evaluate / evalElseIfChain renders, of any sibling list, exactly:
   every plain element, of each v-if chain its first truthy member (the v-else when none is,
   nothing when there is none), in order; orphan v-else-if / v-else are dropped; non-element
   nodes between members do not matter *)
Theorem C03_chain_walker : forall l, E l = S_ (elems l).
Proof. exact chain_walker_correct. Qed.
Print Assumptions C03_chain_walker.
Theorem C03_chain_first_truthy_once : forall c i ms post, forallb elseish ms = true -> starts_no_else post ->
  S_ (NIf c i :: ms ++ post) = (if c then [i] else first_truthy ms) ++ S_ post.
Proof. exact spec_chain. Qed.
Print Assumptions C03_chain_first_truthy_once.
Theorem C03_at_most_one_branch : forall ms, length (first_truthy ms) <= 1.
Proof. exact first_truthy_at_most_one. Qed.
Print Assumptions C03_at_most_one_branch.
Theorem C03_plain_sibling_unchanged : forall i r, S_ (NPlain i :: r) = i :: S_ r.
Proof. exact spec_plain. Qed.
Print Assumptions C03_plain_sibling_unchanged.
Theorem C03_orphan_else_dropped : forall n r, elseish n = true -> S_ (n :: r) = S_ r.
Proof. exact spec_orphan. Qed.
Print Assumptions C03_orphan_else_dropped.
(* a sibling carrying v-for is not a chain member: one instance per item, the rest unchanged; an empty loop
   hands over to a v-else that is the very next element and to nothing else *)
Theorem C03_loop_sibling : forall n i r, S_ (NFor (S n) i :: r) = rep_id (S n) i ++ S_ r.
Proof. exact spec_for_items. Qed.
Print Assumptions C03_loop_sibling.
Theorem C03_empty_loop_else : forall i j r, S_ (NFor 0 i :: NElse j :: r) = j :: S_ r.
Proof. exact spec_for_empty_else. Qed.
Print Assumptions C03_empty_loop_else.
Theorem C03_empty_loop_no_else : forall i r, match r with NElse _ :: _ => False | _ => True end -> S_ (NFor 0 i :: r) = S_ r.
Proof. exact spec_for_empty_other. Qed.
Print Assumptions C03_empty_loop_no_else.
Example C03_empty_loop_then_chain :
  E [NFor 0 1; NOther 2; NPlain 3; NIf true 4; NOther 5; NElse 6; NPlain 7] = [3; 4; 7].
Proof. vm_compute. reflexivity. Qed.

(* 4. truthiness.  The property's table: falsy = false, numeric zero of any kind, "", nil (and
   undefined).  The code also makes the string "false" falsy (pinned by TestIsTruthy): the full
   statement is refuted by that one value and holds everywhere else. *)
Theorem C03_truthy_table_partial : forall v, v <> VStr s_false -> truthy v = negb (documented_falsy v).
Proof. exact truthy_table_partial. Qed.
Print Assumptions C03_truthy_table_partial.
Theorem C03_truthy_table_refuted : exists v, documented_falsy v = false /\ truthy v = false.
Proof. exact truthy_table_refuted. Qed.
Print Assumptions C03_truthy_table_refuted.
(* uniformity: every position decides by the one table (undefined = falsy) *)
Theorem C03_truthy_uniform : forall p q o, p <> PNotIf -> q <> PNotIf -> effect p o = effect q o.
Proof. exact truthy_uniform. Qed.
Print Assumptions C03_truthy_uniform.

Example C03_example :
  E [NPlain 0; NIf false 1; NOther 9; NElseIf true 2; NOther 9; NElse 3; NPlain 4; NElse 5; NIf true 6; NElse 7; NIf false 8]
  = [0; 2; 4; 6].
Proof. reflexivity. Qed.

(* the walk that also records the text it renders (the one the correspondence stream compares, text after a chain
   included) renders exactly the elements of the walk the theorems above are about *)
Theorem C03_walk_with_text_agrees : forall fuel l, map snd (filter fst (evaluate_t fuel l)) = evaluate fuel l.
Proof. exact evaluate_t_elements. Qed.
Print Assumptions C03_walk_with_text_agrees.
(* text after the last member of a chain is rendered whichever branch was taken; text between members is not *)
Example C03_text_after_chain :
  ET [NIf true 1; NOther 2; NElse 3; NOther 4; NPlain 5] = [(true, 1); (false, 4); (true, 5)] /\
  ET [NIf false 1; NOther 2; NElse 3; NOther 4; NPlain 5] = [(true, 3); (false, 4); (true, 5)] /\
  ET [NIf true 1; NOther 4; NPlain 5] = [(true, 1); (false, 4); (true, 5)].
Proof. vm_compute. repeat split. Qed.
