From V Require Import Base.Bytes.
Theorem C11_placeholder : True. Proof. exact I. Qed.
Print Assumptions C11_placeholder.
