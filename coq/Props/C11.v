(* C11 — every render call returns.  Theorems only. *)
From Coq Require Import List Bool Arith.
Import ListNotations.
From V Require Import Base.Bytes Model.Depth Proofs.DepthP Gen.Sites_C11 Model.LayoutSlots Proofs.LayoutSlotsP.

(* 1. the model's include evaluation is a structurally recursive (total) function of the depth budget for
      EVERY file table; a chain of limit+1 nested includes is an error ... *)
Theorem C11_deep_path_is_error : forall fs d f, has_path fs (S d) f -> is_err (render fs d f) = true.
Proof. exact deep_path_is_error. Qed.
Print Assumptions C11_deep_path_is_error.
(* ... every cycle shape: a file from which a cycle of includes is reachable is an error at every limit *)
Theorem C11_reachable_cycle_is_error : forall fs j k f g d,
  steps fs j f g -> 0 < k -> steps fs k g g -> is_err (render fs d f) = true.
Proof. exact reachable_cycle_is_error. Qed.
Print Assumptions C11_reachable_cycle_is_error.
Theorem C11_self_include_is_error : forall fs f its i d,
  nth_error fs f = Some its -> In i its -> target i = f -> is_err (render fs d f) = true.
Proof. exact self_include_is_error. Qed.
Print Assumptions C11_self_include_is_error.
(* 2. ... and only those: with every named file present and no chain of limit+1 includes, it succeeds *)
Theorem C11_shallow_is_ok : forall fs d, closed fs -> forall f, f < length fs -> ~ has_path fs (S d) f ->
  exists b, render fs d f = Ok b.
Proof. exact shallow_is_ok. Qed.
Print Assumptions C11_shallow_is_ok.
(* 3. bounded work: the number of include evaluations depends on the limit and the widest file only *)
Theorem C11_calls_bounded : forall fs d f, fst (calls fs d f) <= geo (width fs) d.
Proof. exact calls_bounded. Qed.
Print Assumptions C11_calls_bounded.

(* 4. what the source says now: the guard is the first statement of evalInclude and has the modelled shape;
      the limit is positive *)
Theorem C11_guard_in_source :
  include_guard = bs "len(ctx.TemplateStack) > maxIncludeDepth" /\ 0 < max_include_depth.
Proof. vm_compute. split; [reflexivity|repeat constructor]. Qed.
Print Assumptions C11_guard_in_source.
(* 5. partial operations: every single-value type assertion is on a sync.Pool value or on the sole
      implementation of a package interface; every reflective struct-field read sits in a function that
      tests for exported fields; template functions are called under a deferred recover *)
Theorem C11_assertions_classified :
  forallb (fun r => match snd r with AOther => false | _ => true end) unchecked_assertions = true.
Proof. vm_compute. reflexivity. Qed.
Print Assumptions C11_assertions_classified.
Theorem C11_field_reads_guarded : forallb (fun r => snd r) reflect_field_reads = true.
Proof. vm_compute. reflexivity. Qed.
Print Assumptions C11_field_reads_guarded.
Theorem C11_callfunc_recovers : existsb (fun r => bytes_eqb (snd r) (bs "callFunc")) recover_sites = true.
Proof. vm_compute. reflexivity. Qed.
Print Assumptions C11_callfunc_recovers.

(* 6. the other recursion of the evaluator that follows a table the template author controls: slots a page hands
      to its layout, whose contents may use one another in any ring.  For EVERY table of supplied contents and
      every layout, expansion ends - (number of supplied slots) nested expansions always suffice, so the depth of
      the recursion is bounded by the page's own size - and more budget changes nothing *)
Theorem C11_layout_slots_end : forall t layout, layout_slots t layout <> None.
Proof. exact layout_slots_total. Qed.
Print Assumptions C11_layout_slots_end.
Theorem C11_slot_expansion_bounded : forall t fuel chain, chain_ok t chain -> length t <= fuel + length chain ->
  forall it, expand fuel t chain it <> None.
Proof. exact expand_total. Qed.
Print Assumptions C11_slot_expansion_bounded.
Theorem C11_slot_budget_irrelevant : forall t layout fuel, length t <= fuel ->
  expand_all fuel t [] layout = layout_slots t layout.
Proof. exact layout_slots_fuel_irrelevant. Qed.
Print Assumptions C11_slot_budget_irrelevant.
(* what the source says now (regenerated on every run): evalSlot tests the slot's name against the WHOLE chain of
   inherited slots under expansion, expands a supplied content only when that test fails, and pushes the name
   on a copy of the chain for that expansion only *)
Theorem C11_slot_chain_in_source :
  slot_chain_test = bs "expanding = expanding || name == slotName" /\
  slot_chain_cond = bs "slotContent != nil && !expanding" /\
  slot_chain_push = bs "ctx.inheritedSlots = append(ctx.inheritedSlots[:len(ctx.inheritedSlots):len(ctx.".
Proof. vm_compute. repeat split. Qed.
Print Assumptions C11_slot_chain_in_source.
(* the twin that remembers only the innermost slot being expanded does not end on two contents that use each
   other, whatever the budget (a one-name memory, or none as before repair a290021, is not enough) *)
Theorem C11_one_name_memory_diverges : exists t layout, forall fuel, seq_opt (expand_inner fuel t None) layout = None.
Proof. exact innermost_only_diverges. Qed.
Print Assumptions C11_one_name_memory_diverges.

(* non-vacuity: a three-file cycle entered from outside it, and a diamond that is fine *)
Example C11_cycle_example :
  let fs := [[IInc 1]; [ILoop 2; IInc 3]; [IIf 1]; []] in
  is_err (render fs 100 0) = true /\ (exists b, render [[IInc 1; IInc 2]; [IInc 3]; [ILoop 3]; []] 100 0 = Ok b).
Proof. split; [vm_compute; reflexivity|eexists; vm_compute; reflexivity]. Qed.
