(* C13 — an expression means the same everywhere.  Theorems only; generic in the expression evaluator X
   (expr-lang) and in the registered functions. *)
From V Require Import Base.Bytes Base.Val Model.Stack Model.Truthy Model.Route Proofs.RouteP.

(* routing facts: with the canonical printer every documented binary / ternary expression is classified
   complex; a plain path is neither complex, nor a call, nor a pipe *)
Theorem C13_binary_is_complex : forall o a b, is_complex (print (Bin o a b)) = true.
Proof. exact binary_is_complex. Qed.
Print Assumptions C13_binary_is_complex.
Theorem C13_ternary_is_complex : forall c a b, is_complex (print (Tern c a b)) = true.
Proof. exact ternary_is_complex. Qed.
Print Assumptions C13_ternary_is_complex.
Theorem C13_path_not_complex : forall p, forallb pathch p = true -> is_complex p = false.
Proof. exact path_not_complex. Qed.
Print Assumptions C13_path_not_complex.
Theorem C13_path_not_function_call : forall p, forallb pathch p = true -> is_function_call p = false.
Proof. exact path_not_function_call. Qed.
Print Assumptions C13_path_not_function_call.
(* 1. route_agree: an expression classified complex is handed whole to the one expression evaluator by
      {{ }}, by bound attributes, by v-if / v-else-if and by v-show - so it yields X's value everywhere *)
Theorem C13_complex_routes_to_X : forall X call s e, is_complex (trim e) = true -> is_complex e = true ->
  value_interp X call s e = X (trim e) s None /\ value_bound X call s e = X (trim e) s None.
Proof. exact complex_routes_to_X. Qed.
Print Assumptions C13_complex_routes_to_X.
Theorem C13_condition_by_X : forall X s e v, X (normalize_cmp (trim e)) s None = XVal v -> cond_if X s e = truthy v.
Proof. exact complex_condition_by_X. Qed.
Print Assumptions C13_condition_by_X.
Theorem C13_show_by_X : forall X s e v, X e s None = XVal v -> cond_show X s e = truthy v.
Proof. exact complex_show_by_X. Qed.
Print Assumptions C13_show_by_X.
(* ... and a plain path means the resolved value at every position *)
Theorem C13_path_agree : forall X call s p, X_path X s -> forallb pathch p = true -> trim p = p -> normalize_cmp p = p ->
  let v := match resolve s p with Some v => v | None => VNil end in
  value_interp X call s p = XVal v /\ truthy (match value_bound X call s p with XVal w => w | XErr _ => VNil end) = truthy v /\
  cond_if X s p = truthy v /\ cond_show X s p = truthy v.
Proof. exact path_agree. Qed.
Print Assumptions C13_path_agree.
(* 2. pipes apply the registered functions left to right, the piped value as first argument *)
Theorem C13_pipe_left_to_right : forall X call s x fs v, x <> [] -> resolve s x = Some v ->
  eval_pipe X call s {| p_initial := x; p_segs := map (fun fa => SFilter (fst fa) (snd fa)) fs |} = apply_chain call s fs v.
Proof. exact pipe_left_to_right. Qed.
Print Assumptions C13_pipe_left_to_right.
(* 2b. ... also when the pipe begins with a call: g(args) | f1 | ... | fn calls g without a piped value and pipes
   its result on *)
Theorem C13_head_call_left_to_right : forall X call s g gargs fs,
  eval_pipe X call s {| p_initial := []; p_segs := SFilter g gargs :: map (fun fa => SFilter (fst fa) (snd fa)) fs |} =
  match eval_filter call s g gargs None false with XVal v => apply_chain call s fs v | e => e end.
Proof. exact head_call_left_to_right. Qed.
Print Assumptions C13_head_call_left_to_right.
(* 3. an unknown function, and an error raised by a function, fail with an error that names the function *)
Theorem C13_unknown_function_named : forall call s f args (input : option val) (w : bool),
  call f ((if w then [match input with Some v => v | None => VNil end] else []) ++ map (resolve_argument s) args) = None ->
  eval_filter call s f args input w = XErr (Some f).
Proof. exact unknown_function_named. Qed.
Print Assumptions C13_unknown_function_named.
Theorem C13_function_error_named : forall call s f args (input : option val) (w : bool) e,
  call f ((if w then [match input with Some v => v | None => VNil end] else []) ++ map (resolve_argument s) args) = Some (XErr e) ->
  eval_filter call s f args input w = XErr (Some f).
Proof. exact function_error_named. Qed.
Print Assumptions C13_function_error_named.
Example C13_parse_examples :
  parse_pipe (bs "item | double | . > 5") = {| p_initial := []; p_segs := [SExpr (bs "item | double | . > 5")] |} /\
  parse_pipe (bs "name | upper | default(""x"", 2)") = {| p_initial := bs "name"; p_segs := [SFilter (bs "upper") []; SFilter (bs "default") [bs """x"""; bs "2"]] |} /\
  parse_pipe (bs "len(items)") = {| p_initial := []; p_segs := [SFilter (bs "len") [bs "items"]] |} /\
  parse_pipe (bs "len(items) | double | pad('x')") = {| p_initial := []; p_segs := [SFilter (bs "len") [bs "items"]; SFilter (bs "double") []; SFilter (bs "pad") [bs "'x'"]] |} /\
  parse_pipe (bs "items[0] | f") = {| p_initial := bs "items[0]"; p_segs := [SFilter (bs "f") []] |}.
Proof. vm_compute. auto. Qed.

(* a string-literal argument is copied up to its matching quote, quotes included: a quote of the other kind, a
   comma, a parenthesis or a pipe inside it belongs to the literal *)
Theorem C13_string_literal_argument : forall qc body rest cur,
  (qc = x22 \/ qc = x27) -> ~ In qc body ->
  parse_args_go (qc :: body ++ qc :: rest) None cur = parse_args_go rest None (qc :: rev body ++ qc :: cur).
Proof. exact parse_args_string_literal. Qed.
Print Assumptions C13_string_literal_argument.
(* ... and its value is the text between the quotes, as a string, exactly: '7' is not a number, 'true' not a
   boolean, 'title' not the variable title, and blanks inside the quotes stay *)
Theorem C13_string_literal_value : forall s qc body,
  (qc = x22 \/ qc = x27) -> ~ In qc body ->
  map (resolve_argument s) (parse_args_go (qc :: body ++ [qc]) None []) = [VStr body].
Proof. exact string_literal_value. Qed.
Print Assumptions C13_string_literal_value.
Example C13_literal_with_other_quote :
  parse_args (bs """hasn't, (really)"", 'say ""hi""'") = [bs """hasn't, (really)"""; bs "'say ""hi""'"].
Proof. vm_compute. reflexivity. Qed.
