(* C09 — one engine serves any number of concurrent renders.  Theorems only. *)
From Coq Require Import List Bool Arith.
Import ListNotations.
From V Require Import Base.Bytes Model.Conc Proofs.ConcP Model.CacheConc Proofs.CacheConcP Gen.Sites_C09.

(* the guard of every location, from the table regenerated from the source *)
Definition guard (x : loc) : lock :=
  match find (fun r => Nat.eqb (fst (fst r)) x) loc_table with Some r => snd r | None => 0 end.
Definition table_paths : list (list action) := map snd paths.

(* 1. every control-flow path of every function of /repo that touches a mutex or a mutex-guarded field
      holds the guard in write mode at each write, in some mode at each read, releases what it acquired,
      and never re-acquires a lock it holds *)
Theorem C09_paths_disciplined : forallb (path_ok guard) table_paths = true.
Proof. vm_compute. reflexivity. Qed.
Print Assumptions C09_paths_disciplined.

(* 2. hence: ANY number of threads, each making ANY sequence of calls each of which takes ANY of those
      paths, under ANY schedule of the RWMutex semantics, never reaches a state in which two threads are
      about to access the same guarded location with one of them writing *)
Theorem C09_no_race_on_guarded_state : forall progs : thread -> list action,
  (forall t, exists ps, incl ps table_paths /\ progs t = concat ps) ->
  forall s, reach {| prog := progs; held := fun _ => [] |} s -> ~ racy s.
Proof. exact (table_race_free guard table_paths C09_paths_disciplined). Qed.
Print Assumptions C09_no_race_on_guarded_state.

(* 3. no function reachable from the concurrent API assigns to a package-level variable or behind a field
      of a type reachable from Vue, except guarded fields (1.), freshly allocated values and sync.Once bodies *)
Definition classified (r : bytes * bytes * bytes * wclass) : bool :=
  match snd r with WOther => false | _ => true end.
Theorem C09_shared_writes_classified : forallb classified shared_writes = true.
Proof. vm_compute. reflexivity. Qed.
Print Assumptions C09_shared_writes_classified.

(* 4. the only package-level variables whose methods such functions call are of types that are safe for
      concurrent use by their documentation (sync.Pool, sync.Once, *regexp.Regexp) or are the guarded struct *)
Definition safe_types : list bytes :=
  [bs "sync.Pool"; bs "*sync.Pool"; bs "sync.Once"; bs "*regexp.Regexp"; bs "*struct{sync.RWMutex; m map[string][]string}"].
Theorem C09_global_calls_safe :
  forallb (fun r => existsb (bytes_eqb (snd r)) safe_types) global_calls = true.
Proof. vm_compute. reflexivity. Qed.
Print Assumptions C09_global_calls_safe.
(* the translator found the API it starts from *)
Theorem C09_roots_found : roots_found = 14 /\ 100 <= reachable_functions.
Proof. vm_compute. split; [reflexivity|repeat constructor]. Qed.
Print Assumptions C09_roots_found.

(* 5. no cross-talk through the caches, for EVERY schedule of any number of threads, with files modified at
      any moment: each lookup returns the function of a version the file had while the lookup ran ... *)
Theorem C09_cache_windows : forall (value : Type) (f : nat -> nat -> value) c0 v0 work schedule t,
  coherent value f v0 c0 ->
  let s := run value f (init value c0 v0 work) schedule in
  Forall (result_ok value f v0 (ver _ s)) (results _ (threads _ s t)) /\
  work t = map (rkey value) (results _ (threads _ s t)) ++ pending (ph _ (threads _ s t)) ++ todo _ (threads _ s t).
Proof. exact cache_windows. Qed.
Print Assumptions C09_cache_windows.
(* ... and with files left alone a thread gets exactly what it gets alone, whatever the others did *)
Theorem C09_cache_transparent : forall (value : Type) (f : nat -> nat -> value) c0 v0 work schedule t,
  coherent value f v0 c0 -> no_touch schedule ->
  let s := run value f (init value c0 v0 work) schedule in
  ph _ (threads _ s t) = Idle -> todo _ (threads _ s t) = [] ->
  map (rval value) (results _ (threads _ s t)) = map (fun k => f (v0 k) k) (work t).
Proof. exact cache_transparent. Qed.
Print Assumptions C09_cache_transparent.

(* the discipline check is not vacuous: the shape of getCachedPath before its repair fails it *)
Example C09_len_outside_lock_is_undisciplined :
  path_ok (fun _ => 0) [Acq 0 false; Rd 5; Rel 0 false; Rd 5; Acq 0 true; Wr 5; Rel 0 true] = false.
Proof. reflexivity. Qed.
Example C09_rlock_then_write_is_undisciplined :
  path_ok (fun _ => 0) [Acq 0 false; Wr 5; Rel 0 false] = false.
Proof. reflexivity. Qed.
