(* C02 — rendering is faithful.  Theorems only. *)
From V Require Import Base.Bytes Model.Escape Model.Tok Proofs.EscapeP Proofs.TokP Proofs.RoundTrip
  Proofs.Padded Proofs.Pretty Proofs.ReadBack Model.Interp Proofs.InterpP Model.Rcdata Proofs.RcdataP.

(* 1. character references: what the serialiser's escaping writes, the parser's decoding gives back -
      for ALL byte strings (text and attribute values alike) *)
Theorem C02_unescape_escape : forall s, unescape (escape s) = s.
Proof. exact unescape_escape. Qed.
Print Assumptions C02_unescape_escape.

(* 2. the plain serialisation of ANY forest with well-formed names and no two adjacent text nodes
      (what a parser produces) is tokenised and rebuilt into exactly that forest: elements, attribute
      names and values in order, text *)
Theorem C02_ser_roundtrip : forall k, forallb wf k = true -> nf_list nf k = true ->
  build (tokens (flat_map ser k)) [] [] = Some k.
Proof. exact ser_roundtrip. Qed.
Print Assumptions C02_ser_roundtrip.

(* 3. any output that is the forest's serialisation with HTML whitespace inserted around tags and text
      (the relation PSF) gives the same normalised token stream as the forest itself *)
Theorem C02_padding_insignificant : forall k o, PSF k o -> forallb wf k = true -> nf_list nf k = true ->
  norm (tokens o) = norm (flat_map flat k).
Proof. exact padded_forest. Qed.
Print Assumptions C02_padding_insignificant.

(* 4. the engine's pretty printer (compared byte for byte with the implementation on every run), at any
      indentation, on ANY tree: its output reads as the whitespace-stripped tree *)
Theorem C02_pretty_tokens : forall n ind,
  let d := strip (depth n) n in
  forallb wf d = true -> nf_list nf d = true ->
  norm (tokens (pretty (depth n) ind n)) = norm (flat_map flat d).
Proof. exact pretty_tokens. Qed.
Print Assumptions C02_pretty_tokens.
Theorem C02_pretty_faithful : forall n ind,
  let d := strip (depth n) n in
  forallb wf d = true -> nf_list nf d = true ->
  read (pretty (depth n) ind n) = read (flat_map ser d).
Proof. exact pretty_faithful. Qed.
Print Assumptions C02_pretty_faithful.

(* 5. ... and for a canonical tree (no whitespace-only text nodes, text trimmed) reading the output gives
      back exactly the tree *)
Theorem C02_read_back : forall k o f, PSF k o -> forallb wf k = true -> nf_list nf k = true ->
  Forall (canonical f) k -> read o = Some k.
Proof. exact read_back. Qed.
Print Assumptions C02_read_back.
Theorem C02_pretty_read_back : forall n ind f,
  strip (depth n) n = [n] -> wf n = true -> nf n = true -> canonical f n ->
  read (pretty (depth n) ind n) = Some [n].
Proof. exact pretty_read_back. Qed.
Print Assumptions C02_pretty_read_back.

(* 6. an interpolated value sits between its static neighbours *)
Theorem C02_interp_concat : forall fuel raw s pre e post,
  ~ In x7b pre -> ~ In x7d e -> ~ In x7b post -> simple_expr (trim_sp e) = true ->
  interp_go (S (S fuel)) raw s (pre ++ x7b :: x7b :: e ++ x7d :: x7d :: post) =
  Some (pre ++ print_value raw s (trim_sp e) ++ post).
Proof. exact interp_one_value. Qed.
Print Assumptions C02_interp_concat.

(* the hypotheses are met by a tree with references in text and attributes, a void element and nesting *)
Example C02_nonvacuous :
  let n := Elem (bs "div") [(bs "title", bs "a ""q"" & <b>")]
             [Elem (bs "p") [] [Text (bs "x < y & z"); Elem (bs "br") [] []; Text (bs "it's")];
              Elem (bs "input") [(bs "value", bs "&amp;")] []] in
  strip (depth n) n = [n] /\ wf n = true /\ nf n = true /\ canonical (depth n) n /\
  read (pretty (depth n) 4 n) = Some [n].
Proof. vm_compute. repeat split; repeat constructor. Qed.

(* the line break a parser drops after a pre / textarea start tag (a carriage return, then a line feed) is
   compensated exactly: after the drop, the content is the content *)
Theorem C02_first_line_break_kept :
  forall s, parser_drop ((if starts_break s then nl else []) ++ s) = s.
Proof. exact first_break_kept. Qed.
Print Assumptions C02_first_line_break_kept.

(* the text of <textarea> and <title>: whatever it holds (character references, an end tag of the element spelled
   in any letter case), what is written is read back as that text, and the element ends where it ended *)
Theorem C02_rcdata_text_round_trip : forall tag t rest,
  rc_split tag (escape t ++ close_tag tag ++ rest) = (escape t, Some (close_tag tag ++ rest)) /\
  rc_text tag (escape t ++ close_tag tag ++ rest) = t.
Proof. exact rc_escape_roundtrip. Qed.
Print Assumptions C02_rcdata_text_round_trip.
