(* C20 — Markdown through the default templates vs the reference.  Theorems only. *)
From Coq Require Import List Bool Arith.
Import ListNotations.
From V Require Import Base.Bytes Model.Escape Model.Tok Proofs.RoundTrip Model.Md Proofs.MdP.

(* 1. for EVERY document of the modelled AST: the byte string the vuego path produces - each node through
      its template, children inserted raw through v-html, text escaped - IS the serialisation of the
      reference DOM *)
Theorem C20_md_is_ser : forall d, md_doc d = flat_map ser (ref_doc d).
Proof. exact md_doc_is_ser. Qed.
Print Assumptions C20_md_is_ser.
(* 2. hence tokenizing and rebuilding the output gives exactly the reference DOM: same block and inline
      elements in the same order, same destinations, titles, code content, list starts, cells, alignment *)
Theorem C20_md_agrees : forall d,
  forallb wf (ref_doc d) = true -> nf_list nf (ref_doc d) = true ->
  build (tokens (md_doc d)) [] [] = Some (ref_doc d).
Proof. exact md_agrees. Qed.
Print Assumptions C20_md_agrees.
(* 3. literal characters: whatever bytes a text segment, a code block, a link destination or title hold -
      <, &, quotes, character references, mustache braces - they arrive as text or attribute value *)
Theorem C20_literal_text : forall s, s <> [] ->
  build (tokens (md_doc [BPara [IText s]])) [] [] = Some [Elem (bs "p") [] [Text s]].
Proof. exact md_literal_text. Qed.
Print Assumptions C20_literal_text.
Theorem C20_literal_code : forall lang code, code <> [] ->
  build (tokens (md_doc [BCode lang code])) [] [] = Some (ref_doc [BCode lang code]).
Proof. exact md_literal_code. Qed.
Print Assumptions C20_literal_code.
Theorem C20_literal_link : forall h t s, s <> [] ->
  build (tokens (md_doc [BPara [ILink h t [IText s]]])) [] [] = Some (ref_doc [BPara [ILink h t [IText s]]]).
Proof. exact md_literal_link. Qed.
Print Assumptions C20_literal_link.

Example C20_sample :
  let d := [BHeading 2 [IText (bs "a < b & "); IEm false [IText (bs "{{ x }}")]; ICode (bs "x<y")];
            BList true 0 [[BText [ICheck true; IText (bs " t")]]; [BPara [ILink (bs "?a=1&b=""2") (bs "t""<") [IEm true [IText (bs "l")]]]; BCode (bs "go") (bs "a && b")]];
            BQuote [BTable [(bs "left", [IText (bs "h")])] [[([], [IImage (bs "i.png") (bs "alt") []; IBreak; IDel [IText (bs "d")]])]]]; BHr] in
  build (tokens (md_doc d)) [] [] = Some (ref_doc d).
Proof. vm_compute. reflexivity. Qed.
