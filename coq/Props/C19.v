From V Require Import Base.Bytes.
Theorem C19_placeholder : True. Proof. exact I. Qed.
Print Assumptions C19_placeholder.
