(* C19 — formatting is idempotent and meaning-preserving.  Theorems only. *)
From Coq Require Import List Bool Arith.
Import ListNotations.
From V Require Import Base.Bytes Model.Escape Model.Tok Model.Fmt Proofs.FmtP Proofs.TokSim Proofs.FmtSkel Gen.Sites_C19.

(* 1. attribute values: FormatAttr applied to its own output changes nothing - ALL byte strings *)
Theorem C19_format_attr_idempotent : forall s, format_attr (format_attr s) = format_attr s.
Proof. exact format_attr_idempotent. Qed.
Print Assumptions C19_format_attr_idempotent.
(* 2. a formatted value between double quotes cannot end the value, whatever it contains, and decoding
      the two references the formatter writes gives the value back *)
Theorem C19_attr_value_inert : forall e n a an s av,
  run (AVdq e n a an av) (escape_attr s) = (AVdq e n a an (av ++ escape_attr s), []).
Proof. exact escape_attr_inert. Qed.
Print Assumptions C19_attr_value_inert.
Theorem C19_attr_value_kept : forall s fuel, length (escape_attr s) <= fuel -> dec_attr fuel (escape_attr s) = s.
Proof. exact dec_escape_attr. Qed.
Print Assumptions C19_attr_value_kept.
(* 3. inline text: normalising normalised text changes nothing - ALL byte strings *)
Theorem C19_normalize_inline_idempotent : forall s, normalize_inline (normalize_inline s) = normalize_inline s.
Proof. exact normalize_inline_idempotent. Qed.
Print Assumptions C19_normalize_inline_idempotent.
(* 4. text escaping: a closed mustache expression that holds no tag opener is copied byte for byte and escaping resumes after it;
      text without a mustache opener has every & < > replaced by its reference and nothing else *)
Theorem C19_mustache_kept : forall inside rest fuel,
  no_close (inside ++ [x7d]) = true -> no_tag_open ([x7b; x7b] ++ inside ++ [x7d; x7d]) = true ->
  esc_text (S fuel) (x7b :: x7b :: inside ++ x7d :: x7d :: rest) = [x7b; x7b] ++ inside ++ [x7d; x7d] ++ esc_text fuel rest.
Proof. exact esc_text_mustache_kept. Qed.
Print Assumptions C19_mustache_kept.
(* ... an expression in which a "<" is followed by a letter, "/", "!" or "?" has exactly those written as
   references, so that whatever it holds the copy cannot open a tag *)
Theorem C19_mustache_inert : forall s, no_tag_open (esc_must s) = true.
Proof. exact esc_must_inert. Qed.
Print Assumptions C19_mustache_inert.
Theorem C19_plain_text_escaped : forall s, no_open s = true -> forall fuel, length s < fuel ->
  esc_text fuel s = flat_map esc_t1 s.
Proof. exact esc_text_plain. Qed.
Print Assumptions C19_plain_text_escaped.
(* 5. layout: the whitespace a formatting pass inserts between the children of a block-mode element, and
      around a block-mode text, does not change the next pass's layout - every tree, every element table *)
Theorem C19_block_pads_insignificant : forall voids inlines phrasings fuel depth t a kids,
  keep_inline voids inlines phrasings fuel t kids = false ->
  fmt_node voids inlines phrasings (S fuel) depth (Elem t a (filter nws kids)) =
  fmt_node voids inlines phrasings (S fuel) depth (Elem t a kids).
Proof. exact block_pads_insignificant. Qed.
Print Assumptions C19_block_pads_insignificant.
Theorem C19_block_text_trim : forall voids inlines phrasings fuel depth s,
  fmt_node voids inlines phrasings fuel depth (Text (trimw s)) = fmt_node voids inlines phrasings fuel depth (Text s).
Proof. exact block_text_trim. Qed.
Print Assumptions C19_block_text_trim.

(* 6. structure and attributes are preserved: for EVERY tree with well-formed names, whatever bytes its text
      nodes and attribute values hold (quotes, ampersands, comparison operators, mustache expressions with
      "<"), whichever of the block / inline / compact layouts each element gets, at any depth and for any
      element tables, the tags a tokenizer finds in the formatted text are exactly the tree's: every element
      in order, every attribute in order with its name and its written value, void elements without end tag *)
Theorem C19_format_keeps_tags : forall voids inlines phrasings n depth, wf n = true ->
  tags (snd (run (Data []) (fmt_node voids inlines phrasings (S (depthn n)) depth n))) = ftok voids n.
Proof. exact fmt_tags. Qed.
Print Assumptions C19_format_keeps_tags.
(* ... each written value decodes to the original value with whitespace collapsed ... *)
Theorem C19_written_value_decodes : forall kv,
  dec_attr (length (snd (wattr kv))) (snd (wattr kv)) = format_attr (snd kv).
Proof. exact wattr_decodes. Qed.
Print Assumptions C19_written_value_decodes.
(* ... and in particular the skeleton (elements and attribute names) is the tree's *)
Theorem C19_format_keeps_structure : forall voids inlines phrasings n depth, wf n = true ->
  skel (snd (run (Data []) (fmt_node voids inlines phrasings (S (depthn n)) depth n))) = skel (ftok voids n).
Proof. exact fmt_skeleton. Qed.
Print Assumptions C19_format_keeps_structure.

(* the layout model on an example with every rule: block, phrasing-inline, inline element, void, padded
   attribute value with a quote and an ampersand, mustache with a comparison *)
Example C19_layout_example :
  format_forest voids inlines phrasings
    [Elem (bs "div") [(bs "title", bs "  a  ""b"" & c "); (bs "hidden", [])]
       [Text (bs " "); Elem (bs "p") [] [Text (bs "x <  y "); Elem (bs "b") [] [Text (bs "{{ a < b }}")]; Elem (bs "br") [] []];
        Text (bs "  tail & co ")]]
  = bs "<div title=""a &quot;b&quot; &amp; c"" hidden>" ++ [x0a] ++
    bs "  <p>x &lt; y <b>{{ a < b }}</b><br></p>" ++ [x0a] ++ bs "  tail &amp; co" ++ [x0a] ++ bs "</div>" ++ [x0a].
Proof. vm_compute. reflexivity. Qed.
