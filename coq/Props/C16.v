(* C16 — v-once.  Theorems only; [render] = evaluation with a fresh seen set. *)
From V Require Import Base.Bytes Model.Once Proofs.OnceP.
(* 1. at most once per render *)
Theorem C16_at_most_once : forall f, NoDup (marks (render f)).
Proof. exact once_at_most_once. Qed.
Print Assumptions C16_at_most_once.
(* ... and every marked element that evaluation reached is emitted: no suppression without an emitted twin *)
Theorem C16_reached_iff_emitted : forall f k, In k (fst (once [] f)) <-> In k (marks (render f)).
Proof. exact reached_iff_emitted. Qed.
Print Assumptions C16_reached_iff_emitted.
(* 2. emitted the first time it is reached, skipped (with its subtree) at every later instantiation *)
Theorem C16_first_reached_is_kept : forall seen k lab kids next, memb k seen = false ->
  exists ks nx, snd (once seen (FNode (Some k) lab kids next)) = FNode (Some k) lab ks nx.
Proof. exact first_reached_is_kept. Qed.
Print Assumptions C16_first_reached_is_kept.
Theorem C16_later_instantiation_skipped : forall seen k lab kids next, memb k seen = true ->
  once seen (FNode (Some k) lab kids next) = once seen next.
Proof. exact later_instantiation_skipped. Qed.
Print Assumptions C16_later_instantiation_skipped.
Theorem C16_seen_is_monotone : forall f seen k, In k seen -> In k (fst (once seen f)).
Proof. exact seen_is_monotone. Qed.
Print Assumptions C16_seen_is_monotone.
(* 3. distinct v-once elements never suppress one another *)
Theorem C16_distinct_never_suppress : forall f, NoDup (marks f) -> render f = f.
Proof. exact distinct_never_suppress. Qed.
Print Assumptions C16_distinct_never_suppress.
(* 4. every render starts afresh: [render] takes no state; two renders of one forest are equal *)
Theorem C16_fresh_per_render : forall f, render f = snd (once [] f).
Proof. reflexivity. Qed.
Print Assumptions C16_fresh_per_render.

Example C16_loop_of_three :
  let k := bs "page#0" in
  let item n := FNode None 0 (FNode (Some k) 1 FNil (FNode None 2 FNil FNil)) n in
  render (item (item (item FNil))) =
  FNode None 0 (FNode (Some k) 1 FNil (FNode None 2 FNil FNil))
   (FNode None 0 (FNode None 2 FNil FNil) (FNode None 0 (FNode None 2 FNil FNil) FNil)).
Proof. vm_compute. reflexivity. Qed.
