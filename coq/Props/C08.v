(* C08 — one fixed precedence of data sources.  Theorems only. *)
From V Require Import Base.Bytes Base.Val Model.Stack Model.Sources Proofs.StackP Proofs.SourcesP.

(* 1. for every engine (theme, data files in directory order, files with front-matter), every Fill map,
      every list of Assigns before and after Load, every key: the rendered file sees its own
      front-matter, else the Assigns made on the loaded template, else those made before, else the
      Fill data, else the LAST data file defining the key, else theme.yml *)
Theorem C08_visible_value : forall e m a1 f a2 k,
  let fm := match assocb f (e_files e) with Some x => x | None => [] end in
  let t := assigns (t_load e f (assigns (t_fill e (VMap m) (base e)) a1)) a2 in
  lookup (render_stack e t) k =
  assocb k (rev fm) <|> assocb k (rev a2) <|> assocb k (rev a1) <|> assocb k (rev m)
  <|> last_wins (e_datafiles e) k <|> assocb k (rev (e_theme e)).
Proof. exact visible_value. Qed.
Print Assumptions C08_visible_value.
Theorem C08_config_last_data_file_wins : forall e k,
  assocb k (config e) = last_wins (e_datafiles e) k <|> assocb k (rev (e_theme e)).
Proof. exact config_spec. Qed.
Print Assumptions C08_config_last_data_file_wins.
(* 2. the rule is the same wherever a variable is read: Lookup ({{ }}, bound attributes) and the merged
      expression environment (v-if, expressions) agree on every name of a render *)
Theorem C08_read_paths_agree : forall e t f k, t_file t = Some f -> k <> [] ->
  vis (render_stack e t) k = lookup (render_stack e t) k.
Proof. exact read_paths_agree. Qed.
Print Assumptions C08_read_paths_agree.
(* ... and for struct data, by field name or JSON tag (C17) *)
Theorem C08_struct_root_agrees : forall s k fs, Forall uniq (scopes s) -> root s = VStruct fs -> wf_struct fs -> k <> [] ->
  assocb k (envmap s) = match look (scopes s) k with Some v => Some v | None => option_map conv (lookup s k) end.
Proof. exact envmap_agrees_struct_root. Qed.
Print Assumptions C08_struct_root_agrees.
(* 3. a template created with New / Load never changes what its parent or siblings see *)
Theorem C08_tree_independence : forall e keys st o j, j < length st -> target o <> Some j ->
  nth_error (fst (step e keys st o)) j = nth_error st j.
Proof. exact tree_independence. Qed.
Print Assumptions C08_tree_independence.
(* a copy shows what the original shows (New, Load start from the parent's merged environment) *)
Theorem C08_copy_shows_the_same : forall s k, Forall uniq (scopes s) -> vis (copy s) k = vis s k.
Proof. exact vis_copy. Qed.
Print Assumptions C08_copy_shows_the_same.
