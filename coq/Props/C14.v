(* C14 — attribute binding.  Theorems only. *)
From V Require Import Base.Bytes Base.Val Model.Stack Model.Truthy Model.Interp Model.Attrs Proofs.AttrsP Gen.Sites_C14.

(* 1+2. static attributes pass through (trimmed) in place and in order; a bound attribute is emitted
   after them with the value's string form exactly when the value is truthy, and omitted otherwise *)
Theorem C14_static_in_place_bound_iff_truthy : forall s (l : list (bytes * bytes)) k p,
  Forall (fun kv => plain (snd kv)) l -> (forall kv, In kv l -> fst kv <> k) ->
  eval_attributes s (map (fun kv => AStatic (fst kv) (snd kv)) l ++ [ABound k p]) =
  Some (map (fun kv => (fst kv, trim (snd kv))) l ++ (if truthy (bound_val s p) then [(k, sprint (bound_val s p))] else [])).
Proof. exact bound_after_statics. Qed.
Print Assumptions C14_static_in_place_bound_iff_truthy.
Theorem C14_bound_falsy_omitted : forall s k p, truthy (bound_val s p) = false -> eval_attributes s [ABound k p] = Some [].
Proof. exact bound_falsy_omitted. Qed.
Print Assumptions C14_bound_falsy_omitted.
Theorem C14_bound_truthy_emitted : forall s k p, truthy (bound_val s p) = true ->
  eval_attributes s [ABound k p] = Some [(k, sprint (bound_val s p))].
Proof. exact bound_truthy_emitted. Qed.
Print Assumptions C14_bound_truthy_emitted.
(* 3. class merges static and bound; object syntax contributes exactly the keys whose values are truthy *)
Theorem C14_class_merge : forall s c p, plain c -> truthy (bound_val s p) = true ->
  eval_attributes s [AStatic k_class c; ABound k_class p] = Some [(k_class, trim c ++ x20 :: sprint (bound_val s p))].
Proof. exact class_merge. Qed.
Print Assumptions C14_class_merge.
Theorem C14_class_object_keys : forall s ps,
  class_of_pairs s ps = Val.join [x20] (map fst (filter (fun kv => truthy (pair_value s (snd kv))) ps)).
Proof. exact class_object_keys. Qed.
Print Assumptions C14_class_object_keys.
(* 4. style: bound declarations override same-named static ones and keep the others (positions kept) *)
Theorem C14_style_override : forall static bound k,
  get_decl k (fold_left (fun ds kv => set_decl ds (fst kv) (snd kv)) bound static) =
  match get_decl k (rev bound) with Some v => Some v | None => get_decl k static end.
Proof. exact style_override. Qed.
Print Assumptions C14_style_override.
Theorem C14_style_positions_kept : forall ds k v,
  map fst (set_decl ds k v) = if existsb (bytes_eqb k) (map fst ds) then map fst ds else map fst ds ++ [k].
Proof. exact keys_set_decl. Qed.
Print Assumptions C14_style_positions_kept.
(* 5. v-show adds display:none exactly when its condition is falsy *)
Theorem C14_vshow_truthy_unchanged : forall s l cond, get_static k_vshow l = Some cond -> cond_truthy s cond = true -> eval_vshow s l = l.
Proof. exact vshow_truthy. Qed.
Print Assumptions C14_vshow_truthy_unchanged.
Theorem C14_vshow_falsy_display_none : forall s l cond, get_static k_vshow l = Some cond -> cond <> [] -> cond_truthy s cond = false ->
  exists ds, get_static k_style (eval_vshow s l) = Some (join_decls ds) /\ get_decl (bs "display") ds = Some (bs "none").
Proof. exact vshow_falsy. Qed.
Print Assumptions C14_vshow_falsy_display_none.
Theorem C14_no_vshow_unchanged : forall s l, get_static k_vshow l = None -> eval_vshow s l = l.
Proof. exact vshow_absent. Qed.
Print Assumptions C14_no_vshow_unchanged.
(* 6. directive attributes never appear in the output; only a bracketed name is emitted whatever it spells *)
Theorem C14_directives_never_emitted : forall l k v, In (k, v) (render_attrs l) ->
  exists k0, In (k0, v) l /\ ((is_bracketed k0 = false /\ k = k0 /\ existsb (bytes_eqb k) directives = false) \/
                             (is_bracketed k0 = true /\ k = unbracket k0)).
Proof. exact directives_never_emitted. Qed.
Print Assumptions C14_directives_never_emitted.
(* regenerated from the source: the serialiser's filter list is the model's, and covers every directive
   name the evaluator reads through the attribute helpers *)
Theorem C14_directive_list_complete :
  forallb (fun k => existsb (bytes_eqb k) directives) ignore_list = true /\
  forallb (fun k => existsb (bytes_eqb k) ignore_list) directives = true /\
  forallb (fun k => existsb (bytes_eqb k) ignore_list) read_directives = true.
Proof. vm_compute. auto. Qed.
Print Assumptions C14_directive_list_complete.
(* 7. [k]="v" appears as k="v" with the value untouched - proved for values without a balanced
      mustache pair; refuted in general (the value is interpolated; pinned by the suite) *)
Theorem C14_bracket_literal_partial : forall s k v, plain v -> is_bracketed k = true ->
  element_attrs s [AStatic k v] = Some [(unbracket k, trim v)].
Proof. exact bracket_literal_partial. Qed.
Print Assumptions C14_bracket_literal_partial.
Theorem C14_bracket_literal_refuted : exists s k v, is_bracketed k = true /\ element_attrs s [AStatic k v] <> Some [(unbracket k, trim v)].
Proof. exact bracket_literal_refuted. Qed.
Print Assumptions C14_bracket_literal_refuted.

(* style keys (camelToKebab): a key without capital letters is written as it is; of the capitals only the first
   letter's survives - every later one becomes a hyphen and its lower-case letter - and nothing else is added *)
Theorem C14_kebab_lowercase_unchanged : forall s first, no_upper s = true -> camel_to_kebab first s = s.
Proof. exact kebab_lowercase_unchanged. Qed.
Print Assumptions C14_kebab_lowercase_unchanged.
Theorem C14_kebab_only_first_capital_survives : forall c r,
  camel_to_kebab true (c :: r) = c :: camel_to_kebab false r /\ no_upper (camel_to_kebab false r) = true.
Proof. exact kebab_only_first_capital_survives. Qed.
Print Assumptions C14_kebab_only_first_capital_survives.
Theorem C14_kebab_length : forall s first,
  length (camel_to_kebab first s) = length s + count_upper s - (if first then match s with c :: _ => if is_upper c then 1 else 0 | [] => 0 end else 0).
Proof. exact kebab_length. Qed.
Print Assumptions C14_kebab_length.
Example C14_kebab_example : camel_to_kebab true (bs "fontSize") = bs "font-size" /\ camel_to_kebab true (bs "WebkitBoxFlex") = bs "Webkit-box-flex".
Proof. vm_compute. auto. Qed.
