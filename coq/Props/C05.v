(* C05 — components.  Theorems only. *)
From V Require Import Base.Bytes Base.Val Model.Stack Model.Truthy Model.Loops Model.Include Proofs.StackP Proofs.IncludeP Model.FrontMatter Proofs.FrontMatterP.
(* 1. inside the component a name resolves to the component's front-matter, else the include's
      attributes, else the includer's variables (which stay visible) *)
Theorem C05_include_scope : forall s vars fm k,
  lookup (set_all (push s vars) fm) k =
  match assocb k (rev fm) with
  | Some v => Some v
  | None => match assocb k vars with Some v => Some v | None => lookup s k end
  end.
Proof. exact include_scope. Qed.
Print Assumptions C05_include_scope.
Theorem C05_bound_prop_keeps_value : forall s n p r v, resolve s p = Some v -> truthy v = true ->
  assocb n (eval_props s ((n, PBound p) :: r)) = Some v.
Proof. exact bound_prop_keeps_value. Qed.
Print Assumptions C05_bound_prop_keeps_value.
Theorem C05_static_prop_is_string : forall s n t r, assocb n (eval_props s ((n, PStatic t) :: r)) = Some (VStr t).
Proof. exact static_prop_is_string. Qed.
Print Assumptions C05_static_prop_is_string.
(* 2. none of these bindings is visible afterwards: for every include tree (any depth, any world,
      including recursive ones cut by the fuel) a successful evaluation returns the includer's stack unchanged *)
Theorem C05_include_no_leak : forall w fuel s t o s', scopes s <> [] -> eval w fuel s t = Ok (o, s') -> s' = s.
Proof. exact include_no_leak. Qed.
Print Assumptions C05_include_no_leak.
(* 3. :required - the render fails naming the first listed name that the merged environment lacks ... *)
Theorem C05_required_error : forall w fu s file props next c n, assocb file w = Some c -> c_wrapper c = true ->
  first_missing (envmap (set_all (push s (eval_props s props)) (c_fm c))) (c_required c) = Some n ->
  eval w (S fu) s (IInclude file props next) = Err (ERequired n).
Proof. exact required_error. Qed.
Print Assumptions C05_required_error.
Theorem C05_first_missing_is_first : forall env req n, first_missing env req = Some n <->
  exists pre post, req = pre ++ n :: post /\ Forall (fun x => assocb x env <> None) pre /\ assocb n env = None.
Proof. exact first_missing_some. Qed.
Print Assumptions C05_first_missing_is_first.
(* ... and never otherwise: when every listed name is provided this include itself raises no error *)
Theorem C05_required_met : forall w fu s file props next c, assocb file w = Some c ->
  first_missing (envmap (set_all (push s (eval_props s props)) (c_fm c))) (c_required c) = None ->
  eval w (S fu) s (IInclude file props next) =
  (let s1 := set_all (push s (eval_props s props)) (c_fm c) in
   match eval w fu s1 (c_body c) with
   | Err e => Err e
   | Ok (o, s2) => match eval w fu (pop s2) next with Err e => Err e | Ok (o', s3) => Ok (o ++ o', s3) end
   end).
Proof. exact required_met_no_error_here. Qed.
Print Assumptions C05_required_met.
Theorem C05_all_provided_iff : forall env req, first_missing env req = None <-> Forall (fun n => assocb n env <> None) req.
Proof. exact first_missing_none. Qed.
Print Assumptions C05_all_provided_iff.
(* 4. a registered shorthand tag behaves exactly like the equivalent <template include> *)
Theorem C05_shorthand_equiv : forall w fu s tag props next file, file_of_tag w tag = Some file ->
  eval w (S fu) s (ITag tag props next) = eval w (S fu) s (IInclude file props next).
Proof. exact shorthand_equiv. Qed.
Print Assumptions C05_shorthand_equiv.
Example C05_tag_names :
  tag_of_path (bs "components/ButtonPrimary.vuego") = Some (bs "button-primary") /\
  tag_of_path (bs "components/ui/BadgeItem.vuego") = Some (bs "ui-badge-item") /\
  tag_of_path (bs "layouts/base.vuego") = None.
Proof. vm_compute. auto. Qed.

(* 5. where a component file's front matter ends (loader.go:extractFrontMatter): a file that opens with the fence, holds
   a block in which no line begins with three dashes, and closes it with a fence on its own line has exactly that block
   as its front matter and exactly the rest as its body - whatever the body holds; without an opening fence, or without
   a closing one, the whole file is body *)
Theorem C05_front_matter_block : forall y body, fence_free y ->
  extract (fence ++ y ++ x0a :: fence ++ x0a :: body) = (Some y, body).
Proof. exact extract_block. Qed.
Print Assumptions C05_front_matter_block.
Theorem C05_front_matter_absent : forall s, strip fence s = None -> extract s = (None, s).
Proof. exact extract_none. Qed.
Print Assumptions C05_front_matter_absent.
Theorem C05_front_matter_unclosed : forall y, fence_free y -> extract (fence ++ y) = (None, fence ++ y).
Proof. exact extract_unclosed. Qed.
Print Assumptions C05_front_matter_unclosed.
Example C05_front_matter_example :
  extract (bs "---
title: A --- B
---
<p>body</p>
---
more") = (Some (bs "
title: A --- B"), bs "<p>body</p>
---
more") /\ fence_free (bs "
title: A --- B").
Proof. split; [vm_compute; reflexivity|apply fence_free_dec; vm_compute; reflexivity]. Qed.
(* ... and conversely: whenever a block is recognised it is fence-free, and the file is the fence, the block, a line feed,
   the fence, then the body (after the one line feed that may follow the closing fence) *)
Theorem C05_front_matter_sound : forall s y body, extract s = (Some y, body) ->
  fence_free y /\ exists tail, s = fence ++ y ++ x0a :: fence ++ tail /\
    body = match tail with c :: r => if beq c x0a then r else tail | [] => [] end.
Proof. exact extract_sound. Qed.
Print Assumptions C05_front_matter_sound.
