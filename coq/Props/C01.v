(* C01 — data values are inert.  Theorems only. *)
From V Require Import Base.Bytes Base.Val Model.Stack Model.Escape Model.Interp Model.Tok
  Proofs.EscapeP Proofs.TokP Proofs.InterpP Model.Hole Proofs.HoleP Model.Rcdata Proofs.RcdataP.

(* 1. an escaped string in the data state produces no tag: the tokenizer stays in Data and only
      accumulates character data - for ALL byte strings *)
Theorem C01_escape_text_inert : forall txt s, run (Data txt) (escape s) = (Data (txt ++ escape s), []).
Proof. exact escape_text_inert. Qed.
Print Assumptions C01_escape_text_inert.
(* 2. an escaped string inside a double-quoted attribute value cannot end the value *)
Theorem C01_escape_attr_inert : forall e n a an av s,
  run (AVdq e n a an av) (escape s) = (AVdq e n a an (av ++ escape s), []).
Proof. exact escape_attr_inert. Qed.
Print Assumptions C01_escape_attr_inert.
(* ... and what the parser then decodes is exactly the value *)
Theorem C01_unescape_escape : forall s, unescape (escape s) = s.
Proof. exact unescape_escape. Qed.
Print Assumptions C01_unescape_escape.
(* 3. whatever byte strings sit in the text nodes and attribute values of an evaluated DOM tree, the
      tokenizer finds in its serialisation exactly the tree's elements and attribute names *)
Theorem C01_ser_skeleton : forall n, wf n = true -> skel (snd (run (Data []) (ser n))) = dskel n.
Proof. exact ser_skeleton_top. Qed.
Print Assumptions C01_ser_skeleton.
(* 4. interpolation copies the printed value between the static neighbours: the value's bytes are
      never scanned for mustaches and never looked up (so {{ secret }} inside a value stays text) *)
Theorem C01_value_not_rescanned : forall fuel raw s pre e post,
  ~ In x7b pre -> ~ In x7d e -> ~ In x7b post -> simple_expr (trim_sp e) = true ->
  interp_go (S (S fuel)) raw s (pre ++ x7b :: x7b :: e ++ x7d :: x7d :: post) =
  Some (pre ++ print_value raw s (trim_sp e) ++ post).
Proof. exact interp_one_value. Qed.
Print Assumptions C01_value_not_rescanned.
(* composition for a text sink: static neighbours and ANY value, serialised, tokenise to character data
   only; for an attribute sink the value stays inside the attribute *)
Theorem C01_text_sink_inert : forall txt pre v post, run (Data txt) (escape (pre ++ v ++ post)) = (Data (txt ++ escape (pre ++ v ++ post)), []).
Proof. intros. apply escape_text_inert. Qed.
Print Assumptions C01_text_sink_inert.
Example C01_hostile_tree :
  let n := Elem (bs "a") [(bs "title", bs """><script>x</script>&amp;{{ secret }}")] [Text (bs "</a><b>&lt;{{ secret }}")] in
  skel (snd (run (Data []) (ser n))) = [SStart (bs "a") [bs "title"]; SEnd (bs "a")].
Proof. vm_compute. reflexivity. Qed.

(* 5. evaluator-wide inertness, on the miniature evaluator of Model/Hole.v (text interpolation, static and
      bound attributes, v-text, v-show, v-if / v-else-if / v-else chains, v-if comparing with a literal,
      v-for with and without an index, components with front-matter included with static, interpolated and bound props and supplied slot content,
      slots with fallback - nested arbitrarily, over any table W of component files and any slot closure;
      compared with the engine on concrete data by the "mini" stream): if a template runs to completion
      with opaque HOLES in place of some string values - i.e. no construct inspects their content - then
      with ANY concrete string s in their place it runs to completion too, and the result is the same DOM
      with s filled in verbatim: s contributes characters to the text runs and attribute values that held
      the hole, and nothing else - no element, no attribute name, no evaluation of what s spells, also
      after s was forwarded as a prop (alone or inside an interpolated string) through any depth of
      includes or placed in slot content evaluated inside another component *)
Theorem C01_hole_parametricity : forall (s : bytes) W fuel c r t d,
  plain_W W = true ->      (* front-matter is written in the component files: it holds no data value *)
  cons_c s c = true -> cons_e s r = true -> eval W fuel c r t = Ok d ->
  exists d', eval W fuel (sclo s c) (senv s r) t = Ok d' /\ rel s d d'.
Proof. intros s W fuel c r t d HW. exact (eval_hole_param s W HW fuel c r t d). Qed.
Print Assumptions C01_hole_parametricity.
(* the premises are met by a run that forwards a hole through a loop, a bound prop, an interpolated prop
   and slot content; a comparison, or the truthiness of a string assembled around a hole, is reported *)
Example C01_hole_run_exists : plain_W w_demo = true /\ exists d, eval w_demo 7 CNone [(0, VList [VHole true; VStr [x7a]])] t_ok = Ok d.
Proof. split; [reflexivity|exact inert_case]. Qed.
Example C01_hole_inspection_reported :
  eval [([], [TIf 8 [] []])] 5 CNone [(1, VHole true)] (TInclude 0 [PStatic 8 [Lit [x66]; Var 1]] []) = ErrInspect.
Proof. exact inspected_mixed. Qed.

(* 8. sinks inside <textarea> and <title> (RCDATA: the tokenizer looks for nothing but the element's own end tag,
      in any letter case): the serialised text - static neighbours and value - is read back as exactly that text and
      the element ends at its own end tag, nowhere earlier; so a value there can contribute characters only *)
Theorem C01_rcdata_value_inert : forall tag a v b rest,
  rc_text tag (escape (a ++ v ++ b) ++ close_tag tag ++ rest) = a ++ v ++ b /\
  snd (rc_split tag (escape (a ++ v ++ b) ++ close_tag tag ++ rest)) = Some (close_tag tag ++ rest).
Proof. exact rc_value_between_neighbours. Qed.
Print Assumptions C01_rcdata_value_inert.
Theorem C01_rcdata_no_lt_no_end : forall tag s, ~ In x3c s -> rc_split tag s = (s, None).
Proof. exact rc_no_lt. Qed.
Print Assumptions C01_rcdata_no_lt_no_end.
(* the twin that writes such text unescaped (as script and style bodies are written) is refuted: a value ends the element *)
Theorem C01_rcdata_raw_text_refuted : exists tag v,
  fst (rc_split tag (v ++ close_tag tag)) <> v /\ rc_text tag (escape v ++ close_tag tag) = v.
Proof. exact rc_raw_text_breaks_out. Qed.
Print Assumptions C01_rcdata_raw_text_refuted.
