(* C07 — layout chains.  Theorems only; generic in the files, the per-file renderer and the resolver. *)
From V Require Import Base.Bytes Model.Layout Proofs.LayoutP Gen.Sites_C07.

(* 1. the page is rendered first, then each layout of the chain with the previous result as
      [content] over the accumulated data (page data and front-matter still visible, the layout's
      own front-matter on top), and only the last result is the output; a missing file, a failing
      link or an exhausted budget give an error *)
Theorem C07_layout_chain : forall files R resolve base n f first data last, fm_ok files ->
  loop files R resolve base n f first data =
  let '(fs, w) := walk files resolve base n f first (layout_of data) in finish w (renders files R fs data last).
Proof. exact loop_spec. Qed.
Print Assumptions C07_layout_chain.
Theorem C07_next_link_data : forall data c x,
  eget (edel (eput data k_content c) k_layout) x =
  if bytes_eqb x k_layout then None else if bytes_eqb x k_content then Some c else eget data x.
Proof. exact next_data_spec. Qed.
Print Assumptions C07_next_link_data.
(* 2. layouts/base.vuego: applied when the page names no layout and the file exists, at most once; never otherwise *)
Theorem C07_default_base : forall files resolve base n f fm, files f = Some fm -> layout_of fm = None ->
  fst (walk files resolve base (S n) f true None) = f :: fst (walk files resolve base n base false None).
Proof. exact default_base_chain. Qed.
Print Assumptions C07_default_base.
Theorem C07_named_layout_skips_base : forall files resolve base n f fm l dl, files f = Some fm -> layout_of fm = Some l ->
  fst (walk files resolve base (S n) f true dl) = f :: fst (walk files resolve base n (resolve l f) false None).
Proof. exact named_layout_skips_base. Qed.
Print Assumptions C07_named_layout_skips_base.
Theorem C07_no_base_no_layout_plain : forall files R resolve base maxd f fm data,
  files f = Some fm -> layout_of (emerge fm data) = None -> files base = None ->
  render_entry files R resolve base maxd f data = match R f (emerge fm data) with Some c => Ok c | None => ErrRender end.
Proof. exact no_base_no_layout_plain. Qed.
Print Assumptions C07_no_base_no_layout_plain.
Theorem C07_base_applied_once : forall files resolve base n fmb, files base = Some fmb -> layout_of fmb = None ->
  walk files resolve base (S n) base false None = ([base], Done).
Proof. exact base_applied_once. Qed.
Print Assumptions C07_base_applied_once.
(* 3. resolution: relative to the current file first, then layouts/ *)
Theorem C07_resolution_relative_first : forall ex l cur, ex (join (dir cur) (l ++ ext)) = true -> has_suffix l ext = false ->
  resolve_path ex l cur = join (dir cur) (l ++ ext).
Proof. intros ex l cur H1 H2. unfold resolve_path. now rewrite H2, H1. Qed.
Print Assumptions C07_resolution_relative_first.
Theorem C07_resolution_fallback : forall ex l cur, ex (join (dir cur) (l ++ ext)) = false ->
  (has_suffix l ext = true -> ex (join (dir cur) l) = false) -> resolve_path ex l cur = layouts_dir ++ l ++ ext.
Proof.
  intros ex l cur H1 H2. unfold resolve_path. rewrite H1. destruct (has_suffix l ext); [rewrite H2 by reflexivity|]; reflexivity.
Qed.
Print Assumptions C07_resolution_fallback.
(* 4. termination is by construction (structural recursion on the remaining budget); a chain that does
      not end within the budget - cycle, self-reference, too long - or hits a missing file never produces output *)
Theorem C07_no_output_unless_chain_ends : forall files R resolve base n f first data, fm_ok files ->
  snd (walk files resolve base n f first (layout_of data)) <> Done -> forall c, loop files R resolve base n f first data <> Ok c.
Proof. exact no_output_when_chain_does_not_end. Qed.
Print Assumptions C07_no_output_unless_chain_ends.
Theorem C07_chain_length_bounded : forall files resolve base n f first dl,
  length (fst (walk files resolve base n f first dl)) <= n.
Proof. exact walk_len. Qed.
Print Assumptions C07_chain_length_bounded.
(* the budget the model runs with is the literal found in the source (regenerated table) *)
Theorem C07_budget_is_the_documented_maximum : max_depth = 100 /\ max_depth_sites = 1.
Proof. vm_compute. auto. Qed.
Print Assumptions C07_budget_is_the_documented_maximum.

Example C07_self_reference_is_an_error :
  let files := fun f => if bytes_eqb f (bs "p") then Some [(k_layout, bs "p")] else None in
  loop files (fun _ _ => Some []) (fun l _ => l) (bs "base") 100 (bs "p") true [] = ErrDepth.
Proof. vm_compute. reflexivity. Qed.
