(* C18 — overlay filesystem.  Theorems only; proofs live in Proofs/OverlayP.v. *)
From Coq Require Import Sorting.Sorted.
From V Require Import Base.Bytes Model.Overlay Proofs.OverlayP.

(* 1. Open/Stat/ReadFile: content and metadata come from the first layer that has the path *)
Theorem C18_open_first : forall ls p e, ov_open ls p = Some e <->
  exists pre l post, ls = pre ++ l :: post /\ l_open l p = Some e /\
                     Forall (fun l' => l_open l' p = None) pre.
Proof. exact open_first. Qed.
Print Assumptions C18_open_first.

(* a path present in no layer reports not-exist, and only then *)
Theorem C18_open_notexist : forall ls p, ov_open ls p = None <-> Forall (fun l => l_open l p = None) ls.
Proof. exact open_none. Qed.
Print Assumptions C18_open_notexist.

(* 2. nil layers are skipped, wherever they stand: every operation works on [live ls] *)
Theorem C18_nil_skipped : forall a b : layers, live (a ++ None :: b) = live (a ++ b).
Proof. exact nil_skipped_anywhere. Qed.
Print Assumptions C18_nil_skipped.

(* 3. ReadDir: error exactly when no layer lists the directory ... *)
Theorem C18_readdir_error_iff : forall ls d,
  ov_readdir ls d = None <-> Forall (fun l => l_readdir l d = None) ls.
Proof. exact readdir_error_iff. Qed.
Print Assumptions C18_readdir_error_iff.
(* ... the listing is sorted by name, has no duplicate name ... *)
Theorem C18_readdir_sorted : forall ls d es, ov_readdir ls d = Some es -> Sorted le_d es.
Proof. exact readdir_sorted. Qed.
Print Assumptions C18_readdir_sorted.
Theorem C18_readdir_unique : forall ls d es, ov_readdir ls d = Some es -> NoDup (names es).
Proof. exact readdir_names_unique. Qed.
Print Assumptions C18_readdir_unique.
(* ... and contains exactly, for every name listed by some layer, the entry of the
   first layer (among those that list the directory) that lists the name *)
Theorem C18_readdir_union_shadow : forall ls d es, ov_readdir ls d = Some es ->
  forall e, In e es <->
  exists pre l post esl, ls = pre ++ l :: post /\ l_readdir l d = Some esl /\
    first_named (fst e) esl = Some e /\
    Forall (fun l' => forall es', l_readdir l' d = Some es' -> ~ In (fst e) (names es')) pre.
Proof. intros ls d es H e. rewrite (readdir_served ls d es H e). apply served_first. Qed.
Print Assumptions C18_readdir_union_shadow.

(* 4. Glob: the sorted union of the layers' matches without duplicates *)
Theorem C18_glob_union : forall ls pat x,
  In x (ov_glob ls pat) <-> exists l, In l ls /\ In x (l_glob l pat).
Proof. exact glob_union. Qed.
Print Assumptions C18_glob_union.
Theorem C18_glob_sorted : forall ls pat, Sorted (fun a b => bytes_leb a b = true) (ov_glob ls pat).
Proof. exact glob_sorted. Qed.
Print Assumptions C18_glob_sorted.
Theorem C18_glob_nodup : forall ls pat, NoDup (ov_glob ls pat).
Proof. exact glob_nodup. Qed.
Print Assumptions C18_glob_nodup.

(* 5. an overlay is a file system too: used as the upper layer of another overlay (its own answers on the
   queried universe being its table), it behaves like the flattened stack - the same path is opened, the same
   names are listed with the same entries and the listing fails in the same cases, the same matches are globbed *)
Theorem C18_nested_open : forall a b ps ds pats p, mem p ps = true ->
  ov_open (as_layer a ps ds pats :: b) p = ov_open (a ++ b) p.
Proof. exact nested_open. Qed.
Print Assumptions C18_nested_open.
Theorem C18_nested_readdir : forall a b ps ds pats d n, mem d ds = true ->
  served (as_layer a ps ds pats :: b) d n = served (a ++ b) d n /\
  (ov_readdir (as_layer a ps ds pats :: b) d = None <-> ov_readdir (a ++ b) d = None).
Proof. intros a b ps ds pats d n H. split; [now apply nested_readdir_served|now apply nested_readdir_error]. Qed.
Print Assumptions C18_nested_readdir.
Theorem C18_nested_glob : forall a b ps ds pats pat x, mem pat pats = true ->
  (In x (ov_glob (as_layer a ps ds pats :: b) pat) <-> In x (ov_glob (a ++ b) pat)).
Proof. exact nested_glob. Qed.
Print Assumptions C18_nested_glob.

(* non-vacuity: a two-layer stack where the upper layer shadows the lower one *)
Example C18_example :
  let up := {| opens := [(bs "a", {| e_dir := false; e_data := bs "U" |})];
               readdirs := [(bs ".", [(bs "a", false)])]; globs := [(bs "*", [bs "a"])] |} in
  let lo := {| opens := [(bs "a", {| e_dir := false; e_data := bs "L" |}); (bs "b", {| e_dir := true; e_data := [] |})];
               readdirs := [(bs ".", [(bs "a", false); (bs "b", true)])]; globs := [(bs "*", [bs "a"; bs "b"])] |} in
  let ls := live [None; Some up; None; Some lo] in
  ov_open ls (bs "a") = Some {| e_dir := false; e_data := bs "U" |} /\
  ov_readdir ls (bs ".") = Some [(bs "a", false); (bs "b", true)] /\
  ov_glob ls (bs "*") = [bs "a"; bs "b"] /\ ov_open ls (bs "zz") = None.
Proof. vm_compute. repeat split. Qed.
