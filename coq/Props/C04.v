(* C04 — v-for: instances, scoping, restoration, v-else.  Theorems only. *)
From V Require Import Model.ForHead Proofs.ForHeadP Base.Bytes Base.Val Model.Stack Model.Truthy Model.Loops Proofs.StackP Proofs.LoopsP Proofs.MapLoopP.
From Coq Require Import Permutation Sorted.

(* the evaluator that threads the stack through Push / Set / evaluate / Pop (as the code does)
   hands back exactly the stack it was given - every shadowed variable has its outer value again,
   for every nest of loops, every collection, every per-item condition - and computes [spec] *)
Theorem C04_run_restores_and_meets_spec : forall t s, scopes s <> [] -> run s t = (spec s t, s).
Proof. exact run_spec. Qed.
Print Assumptions C04_run_restores_and_meets_spec.
(* 1. one instance per item, in index order, each evaluated with the loop variables bound in a
      scope of its own on top of the outer stack (nested loops compose through [spec]) *)
Theorem C04_spec_for : forall s vars coll cond body he els next,
  spec s (TFor vars coll cond body he els next) =
  (let out := instances s vars cond body (for_each s coll) 0%Z in
   if is_empty out && he then spec s els else out) ++ spec s next.
Proof. exact spec_for. Qed.
Print Assumptions C04_spec_for.
Theorem C04_instances_in_order : forall s vars cond body a b i,
  instances s vars cond body (a ++ b) i =
  instances s vars cond body a i ++ instances s vars cond body b (i + Z.of_nat (length a))%Z.
Proof. exact instances_app. Qed.
Print Assumptions C04_instances_in_order.
(* 2. binding: the item (and the zero-based index) inside the instance, innermost; other names untouched *)
Theorem C04_loop_var_visible : forall s x i v, lookup (bind (push s []) [x] i v) x = Some v.
Proof. exact loop_var_visible. Qed.
Print Assumptions C04_loop_var_visible.
Theorem C04_index_and_item : forall s ix x i v, ix <> x ->
  lookup (bind (push s []) [ix; x] i v) ix = Some (VInt KInt i) /\ lookup (bind (push s []) [ix; x] i v) x = Some v.
Proof. exact loop_index_visible. Qed.
Print Assumptions C04_index_and_item.
Theorem C04_other_names_unchanged_inside : forall s x i v y, y <> x -> lookup (bind (push s []) [x] i v) y = lookup s y.
Proof. exact other_names_unchanged_inside. Qed.
Print Assumptions C04_other_names_unchanged_inside.
(* 3. v-else sibling: rendered exactly when the loop produced nothing; consumed either way *)
Theorem C04_for_else : forall s vars coll cond body els next,
  spec s (TFor vars coll cond body true els next) =
  (if is_empty (instances s vars cond body (for_each s coll) 0%Z) then spec s els
   else instances s vars cond body (for_each s coll) 0%Z) ++ spec s next.
Proof. exact for_else. Qed.
Print Assumptions C04_for_else.
Theorem C04_for_without_else : forall s vars coll cond body els next,
  spec s (TFor vars coll cond body false els next) = instances s vars cond body (for_each s coll) 0%Z ++ spec s next.
Proof. exact for_no_else. Qed.
Print Assumptions C04_for_without_else.
(* 4. slices and arrays of any element kind in index order; nil, missing, non-sequences: nothing *)
Theorem C04_foreach_slice : forall s p l, resolve s p = Some (VList l) -> for_each s p = l.
Proof. exact for_each_list. Qed.
Print Assumptions C04_foreach_slice.
Theorem C04_foreach_array : forall s p l, resolve s p = Some (VArr l) -> for_each s p = l.
Proof. exact for_each_arr. Qed.
Print Assumptions C04_foreach_array.
Theorem C04_foreach_missing : forall s p, resolve s p = None -> for_each s p = [].
Proof. exact for_each_missing. Qed.
Print Assumptions C04_foreach_missing.
Theorem C04_foreach_non_sequence : forall s p v, resolve s p = Some v ->
  (forall l, v <> VList l) -> (forall l, v <> VArr l) -> map_items v = None -> for_each s p = [].
Proof. exact for_each_scalar. Qed.
Print Assumptions C04_foreach_non_sequence.
(* 4b. a map is looped over in the order of its printed keys (stack.go:ForEach sorts rv.MapKeys() by
       fmt.Sprint), each entry exactly once ... *)
Theorem C04_foreach_map_in_key_order : forall v m, map_items v = Some m ->
  exists l, for_each_val v = map snd l /\ StronglySorted kle l /\ Permutation m l.
Proof. exact for_each_map_sorted_perm. Qed.
Print Assumptions C04_foreach_map_in_key_order.
Theorem C04_foreach_map : forall s p m, resolve s p = Some (VMap m) -> for_each s p = map snd (sort_kv m).
Proof. exact for_each_map. Qed.
Print Assumptions C04_foreach_map.
Theorem C04_foreach_map_of_strings : forall s p m, resolve s p = Some (VMapS m) ->
  for_each s p = map snd (sort_kv (map (fun kv => (fst kv, VStr (snd kv))) m)).
Proof. exact for_each_maps. Qed.
Print Assumptions C04_foreach_map_of_strings.
Theorem C04_foreach_map_int_keys : forall s p m, resolve s p = Some (VMapI m) ->
  for_each s p = map snd (sort_kv (map (fun kv => (dec_Z (fst kv), snd kv)) m)).
Proof. exact for_each_mapi. Qed.
Print Assumptions C04_foreach_map_int_keys.
(* ... and whichever order the Go runtime lists the map's entries in, the instances are the same, in
   the same order (also C10: the output is a function of the data, not of the iteration order); the
   twin that iterates in listing order - the code before repair a8b7926 - is refuted *)
Theorem C04_map_loop_order_free : forall s s' p p' v v' m m' vars cond body i,
  resolve s p = Some v -> resolve s' p' = Some v' ->
  map_items v = Some m -> map_items v' = Some m' -> Permutation m m' -> NoDup (map fst m) ->
  instances s vars cond body (for_each s p) i = instances s vars cond body (for_each s' p') i.
Proof. exact map_loop_order_free. Qed.
Print Assumptions C04_map_loop_order_free.
Theorem C04_unsorted_map_loop_refuted : exists m m' : list (bytes * val),
  Permutation m m' /\ NoDup (map fst m) /\ map snd m <> map snd m' /\ map snd (sort_kv m) = map snd (sort_kv m').
Proof. exact unsorted_map_loop_order_matters. Qed.
Print Assumptions C04_unsorted_map_loop_refuted.
Example C04_int_keys_by_spelling :
  for_each_val (VMapI [(2, VStr (bs "two")); (9, VStr (bs "nine")); (10, VStr (bs "ten"))]%Z)
  = [VStr (bs "ten"); VStr (bs "two"); VStr (bs "nine")].
Proof. exact mapi_order. Qed.
(* 5. the expression environment shows the loop variable inside an instance (also over a root struct) *)
Theorem C04_envmap_sees_loop_var : forall s x i v, Forall uniq (scopes s) ->
  assocb x (envmap (bind (push s []) [x] i v)) = Some v.
Proof. exact envmap_sees_loop_var. Qed.
Print Assumptions C04_envmap_sees_loop_var.

Example C04_premise_holds_for_every_render : forall d, scopes (init_stack d) <> [].
Proof. intro d. cbn. discriminate. Qed.

(* the head of a v-for in its spellings (eval_for.go:parseFor, compared with the implementation on every string up to
   length 6 over a loop-head alphabet): "item in items" binds one variable, "(item) in items" the same one
   variable, "(index,item) in items" two - whatever the names and the collection expression are *)
Theorem C04_head_one_variable : forall x c, plain x -> plain c -> (forall r, x <> x28 :: r) ->
  parse_for (x ++ s_in ++ c) = Some ([x], c).
Proof. exact head_one. Qed.
Print Assumptions C04_head_one_variable.
Theorem C04_head_parenthesised_variable : forall x c, plain x -> plain c -> nocomma x ->
  parse_for (x28 :: x ++ [x29] ++ s_in ++ c) = Some ([x], c).
Proof. exact head_paren_one. Qed.
Print Assumptions C04_head_parenthesised_variable.
Theorem C04_head_index_and_item : forall i v c, plain i -> plain v -> plain c -> nocomma i -> nocomma v ->
  parse_for (x28 :: i ++ [x2c] ++ v ++ [x29] ++ s_in ++ c) = Some ([i; v], c).
Proof. exact head_paren_two. Qed.
Print Assumptions C04_head_index_and_item.
Example C04_head_spellings : parse_for (bs "( i , item )  in  items ") = Some ([bs "i"; bs "item"], bs "items")
  /\ parse_for (bs " ( item ) in list.of.items") = Some ([bs "item"], bs "list.of.items") /\ parse_for (bs "item") = None.
Proof. vm_compute. repeat split. Qed.
