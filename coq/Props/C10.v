(* C10 — output is a function of the call's inputs.  Theorems only. *)
From Coq Require Import Sorting.Permutation.
From V Require Import Base.Bytes Base.Val Model.Stack Model.MapOrder Proofs.MapOrderP Proofs.MapLoopP Gen.Sites_C10.

(* 1. a loop that merges the entries of a Go map (distinct keys) into an accumulator gives the same
      accumulator, key by key, for every iteration order the runtime may choose *)
Theorem C10_range_order_irrelevant : forall (val : Type) acc e1 e2, Permutation e1 e2 -> NoDup (map fst e1) ->
  forall x, sget val (merge val acc e1) x = sget val (merge val acc e2) x.
Proof. exact range_order_irrelevant. Qed.
Print Assumptions C10_range_order_irrelevant.
(* ... whereas appending the entries in iteration order does not (what the unrepaired tree did) *)
Theorem C10_append_order_matters : exists e1 e2 : smap nat, Permutation e1 e2 /\ append_all nat [] e1 <> append_all nat [] e2.
Proof. exact append_order_matters. Qed.
Print Assumptions C10_append_order_matters.
(* 2. regenerated from the typed Go AST: every `range` over a map in the package (and its internal
      packages) is a merge of that shape or is sorted before use; the two reflection-based map
      iterations are the known ones (ForEach sorts its keys; PopulateStructFields merges); nothing
      reads the clock or a random source *)
Theorem C10_map_range_sites_order_free : forallb order_free map_ranges = true /\ 10 <= length map_ranges.
Proof. vm_compute. split; [reflexivity|repeat constructor]. Qed.
Print Assumptions C10_map_range_sites_order_free.
Definition refl_ok (x : bytes * bytes * bytes * bool) : bool :=
  let '(f, fn, call, sorted) := x in
  (bytes_eqb fn (bs "ForEach") && sorted) || (bytes_eqb fn (bs "PopulateStructFields") && bytes_eqb call (bs "MapRange")).
Theorem C10_reflect_iterations_known : forallb refl_ok reflect_iters = true.
Proof. vm_compute. reflexivity. Qed.
Print Assumptions C10_reflect_iterations_known.
Theorem C10_no_clock_no_randomness : nondet_calls = [].
Proof. reflexivity. Qed.
Print Assumptions C10_no_clock_no_randomness.
(* 3. pooled scope maps: over any history of pooled pushes, pushes of caller-owned maps, sets and pops, the
      stack of a long-used engine and every map handed back to a caller equal what brand-new maps would
      give; every map waiting in the pool is empty; no lookup can tell the difference; a caller's map is
      never cleared *)
Theorem C10_pooled_equals_fresh : forall (val : Type) ops s, pool_clean val s ->
  pview val (fold_left (pstep val) ops s) = fold_left (pstep_fresh val) ops (pview val s).
Proof. exact pooled_equals_fresh. Qed.
Print Assumptions C10_pooled_equals_fresh.
Theorem C10_pool_stays_clean : forall (val : Type) ops s, pool_clean val s -> pool_clean val (fold_left (pstep val) ops s).
Proof. exact pool_stays_clean. Qed.
Print Assumptions C10_pool_stays_clean.
Theorem C10_pooled_lookup_equals_fresh : forall (val : Type) ops s k, pool_clean val s ->
  plookup val (pstack val (fold_left (pstep val) ops s)) k
  = plookup val (fstack val (fold_left (pstep_fresh val) ops (pview val s))) k.
Proof. exact pooled_lookup_equals_fresh. Qed.
Print Assumptions C10_pooled_lookup_equals_fresh.
Theorem C10_own_map_kept : forall (val : Type) id m sets s,
  let s1 := fold_left (pstep val) (map (fun kv => PSet val (fst kv) (snd kv)) sets) (pstep val s (PPushOwn val id m)) in
  pout val (pstep val s1 (PPop val)) = (id, rev sets ++ m) :: pout val s.
Proof. exact own_map_kept. Qed.
Print Assumptions C10_own_map_kept.
(* ... whereas a Pop that forgets to clear lets an unrelated later scope see a stale variable *)
Theorem C10_dirty_pool_leaks : exists ops k,
  plookup nat (pstack nat (fold_left (pstep_dirty nat) ops {| pstack := [([], KRoot)]; ppool := []; pout := [] |})) k
  <> plookup nat (fstack nat (fold_left (pstep_fresh nat) ops {| fstack := [([], KRoot)]; fout := [] |})) k.
Proof. exact dirty_pool_leaks. Qed.
Print Assumptions C10_dirty_pool_leaks.
(* non-vacuity: a reachable state with a non-empty clean pool *)
Example C10_pool_reachable :
  let s := fold_left (pstep nat) [PPush nat; PSet nat [x61] 1; PPop nat] {| pstack := [([], KRoot)]; ppool := []; pout := [] |} in
  ppool nat s = [[]] /\ pool_clean nat s.
Proof. cbn. split; [reflexivity|repeat constructor]. Qed.

(* the one place where a map's iteration order could reach the output in order - v-for over a map
   (stack.go:ForEach) - sorts the keys by their printed form first: whichever order the runtime lists the
   entries in, the items come out the same, in the same order (used by C04 for the instances) *)
Theorem C10_map_loop_order_free : forall v v' m m',
  map_items v = Some m -> map_items v' = Some m' -> Permutation m m' -> NoDup (map fst m) ->
  for_each_val v = for_each_val v'.
Proof. exact for_each_val_order_free. Qed.
Print Assumptions C10_map_loop_order_free.
Theorem C10_sorted_listing_order_free : forall (A : Type) (m m' : list (bytes * A)),
  Permutation m m' -> NoDup (map fst m) -> sort_kv m = sort_kv m'.
Proof. exact (@sort_kv_order_free). Qed.
Print Assumptions C10_sorted_listing_order_free.
