(* C06 — slots.  Theorems only. *)
From V Require Import Base.Bytes Base.Val Model.Stack Model.Truthy Model.Loops Model.Include Model.Slots
  Proofs.StackP Proofs.SlotsP Model.LayoutSlots Proofs.LayoutSlotsP.
(* 1. a <slot> for which content was supplied renders that content, evaluated in the includer's
      scopes plus one scope with the props the slot binds (declared name / destructured / direct),
      under the includer's own slot closure *)
Theorem C06_slot_fill : forall w fu s sup depth outer name props fb sc content,
  find_supply name sup = Some (sc, content) ->
  eval w (S fu) s (Some (Clo sup depth outer)) (SSlot name props fb SNil) =
  match eval w fu (bind_props (push (lower depth s) []) sc (slot_props s props)) outer content with
  | Err e => Err e
  | Ok (o, s2) => match eval w fu (restore (upper depth s) (pop s2)) (Some (Clo sup depth outer)) SNil with
                  | Err e => Err e | Ok (o', s3) => Ok (o ++ o', s3) end
  end.
Proof. exact slot_fill. Qed.
Print Assumptions C06_slot_fill.
(* ... so nothing the component pushed since the include (its props, front-matter, loop variables) is
   visible to supplied content: two stacks that agree on the includer's scopes and on the slot's props
   render the same thing *)
Theorem C06_slot_sees_includer_only : forall w fu sa sb sup depth outer name props fb sc content,
  find_supply name sup = Some (sc, content) ->
  lower depth sa = lower depth sb -> slot_props sa props = slot_props sb props ->
  match eval w (S fu) sa (Some (Clo sup depth outer)) (SSlot name props fb SNil),
        eval w (S fu) sb (Some (Clo sup depth outer)) (SSlot name props fb SNil) with
  | Ok (oa, _), Ok (ob, _) => oa = ob
  | Err ea, Err eb => True
  | _, _ => fu = 0
  end.
Proof. exact slot_sees_includer_only. Qed.
Print Assumptions C06_slot_sees_includer_only.
(* 2. the fallback children are rendered exactly when nothing was supplied for that name *)
Theorem C06_fallback_without_closure : forall w fu s name props fb next,
  eval w (S fu) s None (SSlot name props fb next) =
  match eval w fu s None fb with
  | Err e => Err e
  | Ok (o, s1) => match eval w fu s1 None next with Err e => Err e | Ok (o', s2) => Ok (o ++ o', s2) end
  end.
Proof. exact slot_fallback_none. Qed.
Print Assumptions C06_fallback_without_closure.
Theorem C06_fallback_when_not_supplied : forall w fu s sup depth outer name props fb next, find_supply name sup = None ->
  eval w (S fu) s (Some (Clo sup depth outer)) (SSlot name props fb next) =
  match eval w fu s (Some (Clo sup depth outer)) fb with
  | Err e => Err e
  | Ok (o, s1) => match eval w fu s1 (Some (Clo sup depth outer)) next with Err e => Err e | Ok (o', s2) => Ok (o ++ o', s2) end
  end.
Proof. exact slot_fallback_not_supplied. Qed.
Print Assumptions C06_fallback_when_not_supplied.
(* 3. per instance: an include evaluates its component under a closure built from its own supplied
      content only; the next sibling (another instance, say) is evaluated in the unchanged stack with
      the unchanged closure, so content of one instance cannot appear in another *)
Theorem C06_per_instance : forall w fu s c file props sup next cp, assocb file w = Some cp -> scopes s <> [] -> clo_ok c ->
  eval w (S fu) s c (SInclude file props sup next) =
  match eval w fu (set_all (push s (eval_props s props)) (sc_fm cp)) (Some (Clo sup (length (scopes s)) c)) (sc_body cp) with
  | Err e => Err e
  | Ok (o, _) => match eval w fu s c next with Err e => Err e | Ok (o', s3) => Ok (o ++ o', s3) end
  end.
Proof. exact include_instance. Qed.
Print Assumptions C06_per_instance.
(* 4. slots in loops: each iteration evaluates the body (its slots included) with that item bound, and
      leaves the stack as it found it *)
Theorem C06_slot_in_loop_step : forall w fu s c x coll body v r, for_each s coll = v :: r -> scopes s <> [] -> clo_ok c ->
  forall o1 s2, eval w fu (set (push s []) x v) c body = Ok (o1, s2) -> s2 = set (push s []) x v /\ pop s2 = s.
Proof. exact loop_step. Qed.
Print Assumptions C06_slot_in_loop_step.
(* no binding leaks out of any combination of slots, includes and loops *)
Theorem C06_no_leak : forall w fuel s c t o s', scopes s <> [] -> clo_ok c -> eval w fuel s c t = Ok (o, s') -> s' = s.
Proof. exact slots_no_leak. Qed.
Print Assumptions C06_no_leak.

(* 5. slots a page hands to its layout (template_layout.go, evalSlot's inherited branch; Model/LayoutSlots.v):
      a slot of the layout - or of a supplied content - for which the page supplied content shows that content,
      expanded in turn with the slot's name remembered ... *)
Theorem C06_inherited_slot_filled : forall f t chain n fb c, lcontent t n = Some c -> ~ In n chain ->
  expand (S f) t chain (LSlot n fb) = expand_all f t (n :: chain) c.
Proof. exact slot_filled. Qed.
Print Assumptions C06_inherited_slot_filled.
(* ... its fallback exactly when the page supplied nothing under that name ... *)
Theorem C06_inherited_slot_fallback : forall fuel t chain n fb, lcontent t n = None ->
  expand fuel t chain (LSlot n fb) = expand_all fuel t chain fb.
Proof. exact slot_unsupplied. Qed.
Print Assumptions C06_inherited_slot_fallback.
(* ... and also when it is met again inside its own content, however indirectly (instead of expanding without end) *)
Theorem C06_inherited_slot_inside_itself : forall fuel t chain n fb, In n chain ->
  expand fuel t chain (LSlot n fb) = expand_all fuel t chain fb.
Proof. exact slot_inside_its_own_content. Qed.
Print Assumptions C06_inherited_slot_inside_itself.
Example C06_inherited_ring :
  layout_slots [(0, [LText 1; LSlot 1 [LText 2]]); (1, [LText 3; LSlot 0 [LText 4]])] [LSlot 0 [LText 5]; LSlot 7 [LText 6]] = Some [1; 3; 4; 6].
Proof. exact ring_ends. Qed.
