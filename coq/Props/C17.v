(* C17 — the variable stack.  Theorems only; proofs in Proofs/StackP.v. *)
From V Require Import Base.Bytes Base.Obs Base.Val Model.Stack Proofs.StackP Proofs.MapLoopP Run.RunC17.
From Coq Require Import Permutation Sorted.

(* 1. lookup returns the innermost binding, falling back to the root data value *)
Theorem C17_lookup_innermost : forall s m k,
  lookup (push s m) k = match assocb k m with Some v => Some v | None => lookup s k end.
Proof. exact lookup_innermost. Qed.
Print Assumptions C17_lookup_innermost.
Theorem C17_lookup_root_fallback : forall s k, look (scopes s) k = None -> lookup s k = resolve_value (root s) k.
Proof. exact lookup_root_fallback. Qed.
Print Assumptions C17_lookup_root_fallback.

(* 2. set affects only the innermost scope *)
Theorem C17_set_then_lookup : forall s k v, lookup (set s k v) k = Some v.
Proof. exact set_then_lookup. Qed.
Print Assumptions C17_set_then_lookup.
Theorem C17_set_other_names : forall s k v x, x <> k -> lookup (set s k v) x = lookup s x.
Proof. exact set_other. Qed.
Print Assumptions C17_set_other_names.
Theorem C17_set_lower_scopes_untouched : forall s k v m r, scopes s = m :: r -> scopes (set s k v) = put m k v :: r.
Proof. exact set_lower_untouched. Qed.
Print Assumptions C17_set_lower_scopes_untouched.

(* 3. pop restores exactly the state before the matching push, whatever balanced
      sequence of pushes, pops and sets happened in between *)
Theorem C17_pop_restores : forall s m ops, scopes s <> [] -> above 1 ops = Some 1 ->
  pop (fold_left mstep ops (push s m)) = s.
Proof. exact pop_restores. Qed.
Print Assumptions C17_pop_restores.

(* 4. the merged environment: innermost scope first, then outer scopes, then root fields *)
Theorem C17_envmap_spec : forall s k, Forall uniq (scopes s) ->
  assocb k (envmap s) = match look (scopes s) k with Some v => Some v | None => assocb k (root_fields (root s)) end.
Proof. exact envmap_spec. Qed.
Print Assumptions C17_envmap_spec.
Theorem C17_envmap_agrees_on_scoped_names : forall s k v, Forall uniq (scopes s) -> look (scopes s) k = Some v ->
  assocb k (envmap s) = lookup s k.
Proof. exact envmap_agrees_scopes. Qed.
Print Assumptions C17_envmap_agrees_on_scoped_names.
(* root data: the environment and Lookup address the same field of a root struct under the
   same names (json name, or Go name), and hold the same value up to the documented
   conversion of nested structs to maps; a root map contributes exactly its keys *)
Theorem C17_envmap_agrees_struct_root : forall s k fs,
  Forall uniq (scopes s) -> root s = VStruct fs -> wf_struct fs -> k <> [] ->
  assocb k (envmap s) = match look (scopes s) k with Some v => Some v | None => option_map conv (lookup s k) end.
Proof. exact envmap_agrees_struct_root. Qed.
Print Assumptions C17_envmap_agrees_struct_root.
Theorem C17_root_struct_agrees : forall fs k, k <> [] -> wf_struct fs ->
  assocb k (root_fields (VStruct fs)) = option_map conv (resolve_struct fs k).
Proof. exact root_struct_agrees. Qed.
Print Assumptions C17_root_struct_agrees.
Theorem C17_root_map_agrees : forall m k, k <> [] -> assocb k (root_fields (VMap m)) = resolve_value (VMap m) k.
Proof. exact root_map_agrees. Qed.
Print Assumptions C17_root_map_agrees.

(* 5. a copy is independent of its original: an operation addressed to one stack of a
      history leaves every other stack as it was *)
Theorem C17_copy_independent : forall st o j, j <> cur st -> j < length (stacks st) ->
  (forall i, o <> OSwitch i) ->
  nth_error (stacks (fst (step st o))) j = nth_error (stacks st) j.
Proof.
  intros st o j Hj Hlt Hsw. destruct st as [ss c]. cbn in *.
  assert (forall (x : stack), nth_error (upd ss c x) j = nth_error ss j) as Hupd.
  { intro x. revert c j Hj Hlt. induction ss as [|y r IH]; intros c j Hj Hlt; [reflexivity|].
    destruct c, j; cbn in *; try reflexivity; try congruence. apply IH; lia. }
  destruct o; cbn; try apply Hupd; try reflexivity.
  - now apply nth_error_app1.
Qed.
Print Assumptions C17_copy_independent.
Theorem C17_copy_sees_envmap : forall s k, Forall uniq (scopes s) ->
  look (scopes (copy s)) k = assocb k (envmap s).
Proof. intros s k _. cbn. destruct (assocb k (envmap s)); reflexivity. Qed.
Print Assumptions C17_copy_sees_envmap.

(* 6. path steps: slices/arrays by Go indexing, structs by exported field name or json tag,
      pointers dereferenced, absence otherwise *)
Theorem C17_index_spec : forall l n v, index l n = Some v <->
  exists i, atoi n = Some (Z.of_nat i) /\ nth_error l i = Some v.
Proof. exact index_spec. Qed.
Print Assumptions C17_index_spec.
Theorem C17_struct_only_exported : forall fs n v, resolve_struct fs n = Some v ->
  exists f, In f fs /\ f_exported f = true /\ f_val f = v /\ (f_name f = n \/ tag_name (f_tag f) = n).
Proof. exact resolve_struct_exported. Qed.
Print Assumptions C17_struct_only_exported.
Theorem C17_struct_by_name : forall fs f, In f fs -> f_exported f = true ->
  (forall g, In g fs -> f_name g = f_name f -> g = f) -> resolve_struct fs (f_name f) = Some (f_val f).
Proof. exact resolve_struct_by_name. Qed.
Print Assumptions C17_struct_by_name.
Theorem C17_nil_pointer_absent : forall n, resolve_value (VPtr None) n = None.
Proof. exact resolve_nil_ptr. Qed.
Print Assumptions C17_nil_pointer_absent.
Theorem C17_pointer_deref : forall x n, resolve_value (VPtr (Some x)) n = resolve_value x n.
Proof. exact resolve_through_ptr. Qed.
Print Assumptions C17_pointer_deref.
Theorem C17_non_string_keys_absent : forall m n, resolve_value (VMapI m) n = None.
Proof. exact resolve_mapi. Qed.
Print Assumptions C17_non_string_keys_absent.
Theorem C17_missing_key_absent : forall m p r, assocb p m = None -> walk (VMap m) (p :: r) = None.
Proof. intros. apply walk_absent. now apply step_missing_key. Qed.
Print Assumptions C17_missing_key_absent.
Theorem C17_walk_compositional : forall v p q,
  walk v (p ++ q) = match walk v p with Some x => walk x q | None => None end.
Proof. exact walk_app. Qed.
Print Assumptions C17_walk_compositional.

(* 7. dotted paths split into their identifiers *)
Theorem C17_split_path_dotted : forall ids, ids <> [] -> Forall ident ids -> split_path (dotted ids) = ids.
Proof. exact split_path_dotted. Qed.
Print Assumptions C17_split_path_dotted.

Example C17_bracket_forms :
  split_path (bs "items[0].title") = [bs "items"; bs "0"; bs "title"] /\
  split_path (bs " a['k x'][""q""] . b ") = [bs "a"; bs "k x"; bs "q"; bs "b"] /\
  split_path (bs "a[1") = [bs "a[1"].
Proof. vm_compute. repeat split. Qed.
Example C17_premises_satisfiable :
  let s := {| scopes := [[(bs "a", VStr (bs "1"))]]; root := VNil |} in
  scopes s <> [] /\ above 1 [MPush []; MSet (bs "a") VNil; MPop; MSet (bs "b") VNil] = Some 1 /\ Forall uniq (scopes s).
Proof. cbn. repeat split; try discriminate. repeat constructor. intros []. Qed.

(* ForEach over a map (stack.go:ForEach): the values come in the order of the printed keys, each entry once, and
   that order is the same for every listing of the map's entries (the Go runtime's iteration order cannot show) *)
Theorem C17_foreach_map_in_key_order : forall v m, map_items v = Some m ->
  exists l, for_each_val v = map snd l /\ StronglySorted kle l /\ Permutation m l.
Proof. exact for_each_map_sorted_perm. Qed.
Print Assumptions C17_foreach_map_in_key_order.
Theorem C17_foreach_map_order_free : forall v v' m m',
  map_items v = Some m -> map_items v' = Some m' -> Permutation m m' -> NoDup (map fst m) ->
  for_each_val v = for_each_val v'.
Proof. exact for_each_val_order_free. Qed.
Print Assumptions C17_foreach_map_order_free.
