(* C12 — all-or-nothing output; writer failures are reported.  Theorems only. *)
From V Require Import Base.Bytes Model.Entry Proofs.EntryP Gen.Sites_C12.

(* 1. when a render returns an error because the program failed or the context was cancelled,
      nothing was written — every entry point, every layout chain, every writer *)
Theorem C12_error_writes_nothing : forall c en fa, (c = true \/ entry_outcome en = EErr) -> run_entry c en fa = ([], true).
Proof. exact error_writes_nothing. Qed.
Print Assumptions C12_error_writes_nothing.
(* 2. when it returns nil the writer has received the complete document *)
Theorem C12_nil_error_means_complete : forall c en fa, snd (run_entry c en fa) = false ->
  c = false /\ exists doc, entry_outcome en = EOk doc /\ fst (run_entry c en fa) = doc.
Proof. exact nil_error_means_complete. Qed.
Print Assumptions C12_nil_error_means_complete.
Theorem C12_ok_writes_all : forall en doc, entry_outcome en = EOk doc -> run_entry false en None = (doc, false).
Proof. exact ok_writes_all. Qed.
Print Assumptions C12_ok_writes_all.
(* 3. a writer failure at any offset inside the document is reported *)
Theorem C12_writer_fault_reported : forall c en k doc, entry_outcome en = EOk doc -> k < length doc ->
  snd (run_entry c en (Some k)) = true.
Proof. exact writer_fault_reported. Qed.
Print Assumptions C12_writer_fault_reported.
(* an error with bytes written happens only when the writer itself failed, and the bytes are a prefix *)
Theorem C12_error_means_fault_or_nothing : forall c en fa, snd (run_entry c en fa) = true ->
  fst (run_entry c en fa) = [] \/
  exists doc k, entry_outcome en = EOk doc /\ fa = Some k /\ k < length doc /\ fst (run_entry c en fa) = firstn k doc.
Proof. exact error_means_writer_fault_or_nothing. Qed.
Print Assumptions C12_error_means_fault_or_nothing.
(* the streaming file entry point of the unrepaired tree violated 3 (witness; repaired by the fix commit) *)
Theorem C12_legacy_stream_refuted : exists chunks k, k < length (concat chunks) /\
  snd (legacy_plain chunks (Some k)) = false /\ fst (legacy_plain chunks (Some k)) <> concat chunks.
Proof. exact legacy_refuted. Qed.
Print Assumptions C12_legacy_stream_refuted.
(* 4. table regenerated from the source: every exported method of *template that takes the
      destination writer hands it only to buffered methods or copies a private buffer once,
      returning the copy's error *)
Theorem C12_entry_points_buffered : exported_ok sites = true /\ 5 <= length sites.
Proof. vm_compute. split; [reflexivity|repeat constructor]. Qed.
Print Assumptions C12_entry_points_buffered.

Example C12_premises_satisfiable :
  entry_outcome (ERenderLayout [EOk [x61]; EOk [x62; x63]]) = EOk [x62; x63] /\
  entry_outcome (ERenderFile true [EOk [x61]; EErr]) = EErr /\
  run_entry false (ERenderLayout [EOk [x61]; EOk [x62; x63]]) (Some 1) = ([x62], true).
Proof. vm_compute. auto. Qed.
