(* C15 — a long-lived engine renders what a new engine renders.  Theorems only. *)
From Coq Require Import List Bool Arith.
Import ListNotations.
From V Require Import Model.Cache Proofs.CacheP Run.RunC15.

(* 1+2. at every point of every history of edits, deletions and renders in which files carry an
   mtime and an edit never re-uses the mtime the cache remembers, ANY render plan (any mixture of
   cached and read-through accesses, the next access depending on what was loaded) loads exactly
   what it loads on an engine created at that moment *)
Theorem C15_cached_equals_fresh : forall (content parsed : Type) (parse : content -> option parsed) fs ops p,
  (forall g c t, fs g = Some (c, t) -> t <> 0) -> guarded content parsed parse (init _ _ fs) ops ->
  let s := fold_left (step content parsed parse) ops (init _ _ fs) in
  snd (run_plan content parsed parse plan_fuel s p) = snd (run_plan content parsed parse plan_fuel (fresh _ _ s) p).
Proof. exact cached_equals_fresh. Qed.
Print Assumptions C15_cached_equals_fresh.
(* the instrumented runner used by the correspondence stream computes the same loads *)
Theorem C15_instrumented_same : forall (content parsed : Type) (parse : content -> option parsed) fuel s p,
  fst (run_plan_h content parsed parse fuel s p) = fst (run_plan content parsed parse fuel s p) /\
  map fst (snd (run_plan_h content parsed parse fuel s p)) = snd (run_plan content parsed parse fuel s p).
Proof. exact run_plan_h_erase. Qed.
Print Assumptions C15_instrumented_same.
(* 3. a failed load leaves the cache exactly as it was *)
Theorem C15_failed_load_leaves_no_entry : forall (content parsed : Type) (parse : content -> option parsed) s f,
  snd (fst (load_cached content parsed parse s f)) = OErr -> fst (fst (load_cached content parsed parse s f)) = s.
Proof. exact failed_load_leaves_no_entry. Qed.
Print Assumptions C15_failed_load_leaves_no_entry.
(* 4. the cache is really used: a hit happens exactly when the remembered mtime is current, reads nothing *)
Theorem C15_hit_iff_unchanged : forall (content parsed : Type) (parse : content -> option parsed) s f,
  snd (load_cached content parsed parse s f) = true <->
  exists c t p tc, files _ _ s f = Some (c, t) /\ cache _ _ s f = Some (p, tc) /\ (t = 0 \/ tc = t).
Proof. exact hit_iff_unchanged. Qed.
Print Assumptions C15_hit_iff_unchanged.
Theorem C15_hit_returns_entry : forall (content parsed : Type) (parse : content -> option parsed) s f,
  snd (load_cached content parsed parse s f) = true ->
  fst (fst (load_cached content parsed parse s f)) = s /\
  exists p tc, cache _ _ s f = Some (p, tc) /\ snd (fst (load_cached content parsed parse s f)) = OOk p.
Proof. exact hit_returns_entry. Qed.
Print Assumptions C15_hit_returns_entry.
(* the unrepaired tree (a Stat error counted as "no mtime", hence a hit) served deleted files *)
Theorem C15_legacy_refuted : exists s : Cache.state nat nat,
  snd (fst (load_cached_legacy nat nat Some s 0)) <> read_through nat nat Some (files _ _ s) 0.
Proof. exact legacy_refuted. Qed.
Print Assumptions C15_legacy_refuted.

Example C15_guard_satisfiable :
  guarded content nat parse (init _ _ (fun _ => None))
    [Edit PAGE (1, true) 5; Render plan_tpl_plain; Edit PAGE (2, true) 6; Delete COMP; Render plan_vue_render].
Proof. cbn. repeat split; try discriminate; intros p tc H; try discriminate. injection H as _ <-. discriminate. Qed.
